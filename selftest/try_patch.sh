#!/bin/bash
# try_patch.sh <name> <patch.diff> <demo_test.go or -> <property> [<property>...]
# Applies a seeded change to a scratch copy of /repo (outside /repo and /verif), confirms that the
# repository suite still passes and that the demonstration fails with the change and passes without
# it, then runs the quick check of each property against the copy.  The copy is removed afterwards.
set -u
name=$1; patch=$2; demo=$3; shift 3
here=$(cd "$(dirname "$0")/.." && pwd)   # the checks of THIS copy of /verif (a vp run snapshot uses its own)
export GOFLAGS=-mod=mod GOPROXY=off GOSUMDB=off GOTOOLCHAIN=local
scratch=/tmp/mut/$name
rm -rf "$scratch"; mkdir -p /tmp/mut
cp -r /repo "$scratch"; rm -rf "$scratch/.git"
res=""
if [ "$demo" != "-" ]; then
  cp "$demo" "$scratch/verif_demo_test.go"
  (cd "$scratch" && go test -vet=off -count=1 -run '(?i)demo' . >/tmp/mut/$name.clean.log 2>&1) && res="$res demo-passes-clean" || res="$res DEMO-FAILS-CLEAN"
fi
(cd "$scratch" && patch -p1 -s < "$patch") || { echo "$name: PATCH DOES NOT APPLY"; rm -rf "$scratch"; exit 2; }
if [ "$demo" != "-" ]; then
  (cd "$scratch" && go test -vet=off -count=1 -run '(?i)demo' . >/tmp/mut/$name.patched.log 2>&1) && res="$res DEMO-PASSES-PATCHED" || res="$res demo-fails-patched"
  rm -f "$scratch/verif_demo_test.go"
fi
(cd "$scratch" && go build ./... && go test -vet=off -count=1 ./... >/tmp/mut/$name.suite.log 2>&1) && res="$res suite-passes" || res="$res SUITE-FAILS"
for p in "$@"; do
  VERIF_REPO="$scratch" VERIF_EVIDENCE_DIR=/tmp/mut/ev-$name "$here/check" "$p" quick > /tmp/mut/$name.$p.log 2>&1
  rc=$?
  res="$res $p:rc=$rc"
done
echo "$name:$res"
rm -rf "$scratch" /tmp/mut/ev-$name
