#!/bin/bash
# Runs every seeded change under /verif/seeded through the quick check of its property
# (scratch copies under /tmp/mut, removed afterwards).  Expected: exit 1 for every one, except the changes whose meta.json records that this machinery cannot decide them.
cd "$(dirname "$0")/.."
fail=0
for d in seeded/*/; do
  id=$(basename "$d")
  # the check that decides it: its own property's, unless meta.json names another one (a change made against one
  # statement that the fragment of another statement covers)
  prop=$(python3 -c "import json;m=json.load(open('$d/meta.json'));print(m.get('detected_by', m['property']))")
  want=$(python3 -c "import json;print(json.load(open('$d/meta.json')).get('now', {}).get('exit', 1))")   # 0 only for changes recorded as not decidable
  out=$(./selftest/try_patch.sh "$id" "$PWD/$d/patch.diff" - "$prop")
  echo "$out"
  case "$out" in *"$prop:rc=$want"*) ;; *) fail=1;; esac
done
exit $fail
