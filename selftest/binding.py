#!/usr/bin/env python3
"""Binding demonstration (DESIGN.md section 7): the specification really constrains what the code may do.

 1. a recorded Flow-B event with ONE corrupted field is rejected at exactly that line (XBatch);
 2. a recorded API session with one corrupted MoveNext reply is rejected at exactly that event (XApiBatch);
 3. a recorded cache run with one corrupted 'loaded' flag is rejected at exactly that event (XCacheBatch);
 4. without the verif hooks the harness does not build: the check exits 2 (tooling error), not 0.
Exit 0 iff all four demonstrations behave as stated.  Not part of the MANIFEST checks.
"""
import json
import os
import shutil
import subprocess
import sys

sys.path.insert(0, os.path.join(os.path.dirname(os.path.abspath(__file__)), "..", "vlib"))
import runner  # noqa: E402
from runner import Run  # noqa: E402

ok = True


def say(name, good, detail=""):
    global ok
    ok = ok and good
    print("%-60s %s %s" % (name, "OK" if good else "FAILED", detail))


run = Run("SELF", "quick")
run.build()

# 1 ------------------------------------------------------------------
tr = run.drive("paths", 300, extra=["-nodes", "12", "-steps", "3"])
lines = open(tr).read().splitlines()
ms = run.validate_batch(tr, "clean-trace")
say("1a clean Flow-B trace accepted", len(ms) == 0)
k = next(i for i, l in enumerate(lines) if '"ids":[' in l and '"ids":[]' not in l and i > 50)
ev = json.loads(lines[k])
ev["ids"] = ev["ids"][:-1]            # drop one delivered node
lines[k] = json.dumps(ev)
open(tr, "w").write("\n".join(lines) + "\n")
run.mismatches = []
ms = run.validate_batch(tr, "corrupted-trace")
say("1b corrupted event rejected at exactly that line", [m["line"] for m in ms] == [k + 1], "line %d: %s" % (k + 1, ms[0]["fail"] if ms else ""))

# 2 ------------------------------------------------------------------
r = run.tlc("MC_Hist", {"MaxCalls": 3, "NSlots": 1, "MaxIters": 2, "PoolName": "C12"}, invariants=("Emit", "EmitPool"), name="hist-gen")
trace = os.path.join(run.work, "sessions.ndjson")
subprocess.run([run.xvh, "hist", "-in", r["outfile"], "-out", trace, "-seed", "1", "-docs", "1"], check=True, capture_output=True)
lines = open(trace).read().splitlines()[:400]
open(trace, "w").write("\n".join(lines) + "\n")
run.mismatches = []
run.keep = True
ms = run.validate_sessions(trace, "clean-sessions")
say("2a clean sessions accepted", len(ms) == 0)
target = None
for i, l in enumerate(lines):
    s = json.loads(l)
    for j, e in enumerate(s["h"]):
        if e.get("op") == "MoveNext" and e.get("ret") and len(s["fresh"][0].get("ids", [])) > 1:
            target = (i, j)
            break
    if target:
        break
i, j = target
s = json.loads(lines[i])
s["h"][j]["cur"] = s["h"][j]["cur"] + 1      # the iterator "delivered" another node
lines[i] = json.dumps(s)
open(trace, "w").write("\n".join(lines) + "\n")
run.mismatches = []
ms = run.validate_sessions(trace, "corrupted-sessions")
say("2b corrupted MoveNext reply rejected at that session and event",
    len(ms) == 1 and ms[0]["line"] == i + 1 and ms[0]["got"]["rejected_event"] == j + 1,
    "session %d event %d: %s" % (i + 1, j + 1, ms[0]["fail"] if ms else ""))

# 3 ------------------------------------------------------------------
import props  # noqa: E402
cb = {"Keys": props.CACHE_KEYS, "BadKeys": {"bad"}, "Caps": {0, 1, 2, 3}, "MaxLen": 4, "Chunk": 64}
g = run.tlc("XCacheBatch", dict(cb, Mode="gen", Keys={"k1", "k2", "k3", "bad"}), invariants=("EmitSeq",), name="cache-gen")
ctrace = os.path.join(run.work, "cache.ndjson")
subprocess.run([run.xvh, "cache", "-in", g["outfile"], "-out", ctrace], check=True, capture_output=True)
lines = open(ctrace).read().splitlines()[:300]
open(ctrace, "w").write("\n".join(lines) + "\n")
run.mismatches = []
ms = run.validate_lines(ctrace, "clean-cache", "XCacheBatch", dict(cb, Mode="validate"), props.describe_cache)
say("3a clean cache runs accepted", len(ms) == 0)
for i, l in enumerate(lines):
    rr = json.loads(l)
    if rr["evs"][0]["ok"]:
        rr["evs"][0]["loaded"] = False          # "returned without calling load" on an empty cache
        lines[i] = json.dumps(rr)
        break
open(ctrace, "w").write("\n".join(lines) + "\n")
run.mismatches = []
ms = run.validate_lines(ctrace, "corrupted-cache", "XCacheBatch", dict(cb, Mode="validate"), props.describe_cache)
say("3b corrupted 'loaded' flag rejected at that run", len(ms) == 1 and ms[0]["line"] == i + 1, ms[0]["fail"] if ms else "")

# 3c ----------------------------------------------------------------- trace validation against the implementation-shaped model
tr = run.drive("vm", 400, extra=["-nodes", "12"])
lines = open(tr).read().splitlines()
run.drift = []
ms = run.validate_batch(tr, "clean-vm-trace", consts={"Deviations": set()}, module="XVMBatch", drift=True, env_extra={"JAVA_TOOL_OPTIONS": "-Xss256m"})
say("3c clean movement trace is a behaviour of XQueryVM2", len(ms) == 0)
hit = []
for i, l in enumerate(lines):
    ev = json.loads(l)
    if len(hit) == 0 and len(ev["ops"]) >= 9:
        ev["ops"][4] += 1                     # one cursor movement starts from another node
    elif len(hit) == 1 and len(ev["ids"]) >= 2 and ev["ids"][0] != ev["ids"][1]:
        ev["ids"][0], ev["ids"][1] = ev["ids"][1], ev["ids"][0]   # two nodes delivered in the other order
    elif len(hit) == 2 and len(ev["ops"]) >= 9:
        ev["ops"] = ev["ops"][:-3]            # the last movement was not made
    else:
        continue
    hit.append(i + 1)
    lines[i] = json.dumps(ev)
    if len(hit) == 3:
        break
open(tr, "w").write("\n".join(lines) + "\n")
run.drift = []
ms = run.validate_batch(tr, "corrupted-vm-trace", consts={"Deviations": set()}, module="XVMBatch", drift=True, env_extra={"JAVA_TOOL_OPTIONS": "-Xss256m"})
say("3d three corrupted movement records rejected at exactly those lines", sorted(m["line"] for m in ms) == hit,
    "%s %s" % (hit, [m["fail"] for m in ms]))

# 3e ----------------------------------------------------------------- trace validation against the exact binary64 model
tr = run.drive("f64", 4000)
lines = open(tr).read().splitlines()
run.mismatches = []
ms = run.validate_batch(tr, "clean-f64-trace", module="XFBatch", skip_ok=True, invariants=("Validate", "Sanity"))
say("3e clean f64 trace is allowed by XFExpr/XFloat", len(ms) == 0, "%d events" % len(lines))
hit = []
for i, l in enumerate(lines):
    ev = json.loads(l)
    g = ev.get("got") or {}
    if i < 20 or "panic" in ev:
        continue
    simple = lambda x: x["t"] == "lit" or (x["t"] == "neg" and x["e"]["t"] == "lit")   # certainly inside the claimed fragment
    if len(hit) == 0 and g.get("t") == "n" and g.get("c") == "fin" and len(g.get("m", [])) == 4 and ev["e"]["t"] == "bin" \
            and ev["e"]["op"] != "mod" and simple(ev["e"]["l"]) and simple(ev["e"]["r"]):
        g["m"][0] ^= 1                          # the last bit of the mantissa: one ulp
    elif len(hit) == 1 and g.get("t") == "b" and ev["e"]["t"] == "cmp" and ev["e"]["l"]["t"] != "all" and ev["e"]["r"]["t"] == "lit" and ev["e"]["l"]["t"] == "lit":
        g["v"] = not g["v"]
    elif len(hit) == 2 and g.get("t") == "s" and ev["e"]["t"] == "sub3" and len(g["v"]) >= 2 and simple(ev["e"]["p"]) and simple(ev["e"]["l"]):
        g["v"] = g["v"][:-1]                    # one character less
    elif len(hit) == 3 and ev["e"]["t"] == "bin" and ev["e"]["op"] == "+" and g.get("t") == "n" and simple(ev["e"]["l"]) and simple(ev["e"]["r"]):
        ev["x"] = ev["x"].replace(" + ", " - ", 1)   # the text is not the rendering of the recorded tree
    else:
        continue
    hit.append(i + 1)
    lines[i] = json.dumps(ev)
    if len(hit) == 4:
        break
open(tr, "w").write("\n".join(lines) + "\n")
run.mismatches = []
ms = run.validate_batch(tr, "corrupted-f64-trace", module="XFBatch", skip_ok=True, invariants=("Validate", "Sanity"))
say("3f one ulp / one flipped boolean / one dropped character / one altered text rejected at exactly those lines",
    sorted(m["line"] for m in ms) == hit and len(hit) == 4, "%s %s" % (hit, [m["fail"] for m in ms]))

# 4 ------------------------------------------------------------------
scratch = "/tmp/mut/nohooks"
shutil.rmtree(scratch, ignore_errors=True)
os.makedirs("/tmp/mut", exist_ok=True)
shutil.copytree(runner.REPO, scratch, ignore=shutil.ignore_patterns(".git"))
os.remove(os.path.join(scratch, "verif_hooks.go"))
env = dict(os.environ, VERIF_REPO=scratch, VERIF_EVIDENCE_DIR="/tmp/mut/ev-nohooks")
p = subprocess.run([os.path.join(runner.VERIF, "check"), "C10", "quick"], env=env, capture_output=True, text=True)
say("4 without the hooks the check is a tooling error (exit 2)", p.returncode == 2, "exit %d" % p.returncode)
shutil.rmtree(scratch, ignore_errors=True)
shutil.rmtree("/tmp/mut/ev-nohooks", ignore_errors=True)

run.keep = False
print("binding demonstration:", "all as stated" if ok else "SOMETHING IS OFF")
sys.exit(0 if ok else 1)
