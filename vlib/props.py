"""Per-property check definitions: which models, which bounds, which
fragment filter and which known-finding matchers."""
import json
import os
import subprocess

from runner import ToolingError, VERIF

AXES = {"ancestor", "ancestor-or-self", "attribute", "child", "descendant", "descendant-or-self",
        "following", "following-sibling", "parent", "preceding", "preceding-sibling", "self"}

BASE_PATHS = dict(ElemNames={"a", "b"}, AttrNames={"a", "b"}, TextVals={"t"}, WithComment=True,
                  StepAxes=AXES, TestKinds={"any", "node", "text", "comment"}, TestNames={"a", "b"})


def consts(base, **kw):
    c = dict(base)
    c.update(kw)
    return c


# ----------------------------------------------------------------------
# known-finding matchers (DESIGN.md 6.3): a finding names a matcher and its
# parameters; a mismatch is attributed to the finding only if the matcher
# accepts the (expression, failure) pair.
def steps_of(e):
    """all step lists occurring in an AST (outermost first)"""
    out = []

    def walk(x):
        if isinstance(x, dict):
            if "steps" in x and isinstance(x["steps"], list):
                out.append(x["steps"])
            if "alts" in x and isinstance(x["alts"], list):
                out.append(x["alts"])
            for v in x.values():
                walk(v)
        elif isinstance(x, list):
            for v in x:
                walk(v)
    walk(e)
    return out


MATCHERS = {}


def matcher(fn):
    MATCHERS[fn.__name__] = fn
    return fn


def match_finding(m, findings):
    for f in findings:
        spec = f.get("match", {})
        fn = MATCHERS.get(spec.get("matcher"))
        if fn is None:
            continue
        fails = spec.get("fail")
        if fails and not any(m.get("fail", "").startswith(x) for x in fails):
            continue
        try:
            if fn(m, spec):
                return f
        except (KeyError, TypeError, IndexError):
            continue
    return None


REVERSE_AXES = {"ancestor", "ancestor-or-self", "preceding", "preceding-sibling"}
STRING_ARG_FUNCS = {"contains", "starts-with", "ends-with", "substring-before", "substring-after", "substring",
                    "string-length", "normalize-space", "translate", "lower-case", "concat", "string", "number",
                    "name", "local-name", "namespace-uri", "floor", "ceiling", "round"}


def walk_ast(x, fn):
    if isinstance(x, dict):
        fn(x)
        for v in x.values():
            walk_ast(v, fn)
    elif isinstance(x, list):
        for v in x:
            walk_ast(v, fn)


@matcher
def first_node_of_reverse_axis(m, spec):
    """A function that converts a node-set argument to a string/number/name takes
    the first node the query delivers; for a path ending in a reverse axis that
    is the nearest node, not the first node in document order."""
    hit = []

    def visit(x):
        if x.get("t") == "call" and x.get("f") in STRING_ARG_FUNCS:
            for a in x.get("args", []):
                if isinstance(a, dict) and a.get("t") == "path" and a.get("steps") and \
                        any(st["ax"] in REVERSE_AXES for st in a["steps"]):
                    hit.append(1)
    walk_ast(m["case"]["e"], visit)
    return bool(hit)


DUP_FREE_AXES = {"child", "attribute", "self"}


@matcher
def count_of_duplicating_path(m, spec):
    """count(P) counts the nodes P DELIVERS; a path whose later steps leave the child/attribute/self axes may
    deliver one node several times (once per input node that reaches it)."""
    hit = []

    def visit(x):
        if x.get("t") == "call" and x.get("f") == "count":
            for a in x.get("args", []):
                if isinstance(a, dict) and a.get("t") == "path" and len(a.get("steps", [])) >= 2 and \
                        any(st["ax"] not in DUP_FREE_AXES for st in a["steps"][1:]):
                    hit.append(1)
    walk_ast(m["case"]["e"], visit)
    return bool(hit)


@matcher
def fractional_numeric_predicate(m, spec):
    """A numeric predicate whose value is not an integer is truncated before it is compared with the position."""
    hit = []

    def frac(x):
        if not isinstance(x, dict):
            return False
        if x.get("t") == "num":
            v = x.get("v") or {}
            return v.get("c") == "fin" and v.get("k", 0) > 0
        if x.get("t") == "bin" and x.get("op") == "div":
            return True
        if x.get("t") == "bin" and x.get("op") in ("+", "-", "*"):
            return frac(x.get("l")) or frac(x.get("r"))
        return False

    def visit(x):
        for st in x.get("steps", []) or []:
            for p in st.get("preds", []) or []:
                if frac(p):
                    hit.append(1)
        for p in x.get("preds", []) or []:
            if frac(p):
                hit.append(1)
    walk_ast(m["case"]["e"], visit)
    return bool(hit)


@matcher
def round_returns_int(m, spec):
    """Evaluate of an expression whose top-level operation is round() hands out a Go int."""
    e = m["case"]["e"]
    while e.get("t") == "filter" and not e.get("preds") and not e.get("steps"):
        e = e["e"]
    return e.get("t") == "call" and e.get("f") == "round" and m.get("got", {}).get("typ") == "int"


# ----------------------------------------------------------------------

def scale_stage(run, offset):
    """Flow B on documents past the 64 / 256 thresholds (258-300 children, 66-72 levels, 66-70 attributes) with short
    expressions about large positions, large unions and absolute paths from deep inside; validated by TLC against XSem."""
    q = run.tier == "quick"
    tr = run.drive("scale", 100 if q else 1500, seed_offset=offset)
    run.validate_batch(tr, "scale-flowB", consts={"Chunk": 16})

def run_C01(run):
    q = run.tier == "quick"
    # (1) every document up to N nodes x every path of 1..2 steps over all 12
    #     axes x 6 node tests, relative and absolute, from every context node
    run.gen_and_replay("MC_Paths", consts(BASE_PATHS, MaxNodes=3 if q else 4, MaxSteps=2, CatSteps=0),
                       name="paths-alldocs-2step", kind="sel-set")
    # (2) larger documents, single steps
    run.gen_and_replay("MC_Paths", consts(BASE_PATHS, MaxNodes=5 if q else 6, MaxSteps=1, CatSteps=0),
                       name="paths-alldocs-1step", kind="sel-set")
    # (3) catalogue of deeper hand-shaped documents, 2 (quick) / 3 (thorough) steps
    if q:
        run.gen_and_replay("MC_Paths", consts(BASE_PATHS, MaxNodes=1, MaxSteps=0, CatSteps=2),
                           name="paths-catalogue-2step", kind="sel-set")
    else:
        run.gen_and_replay("MC_Paths", consts(BASE_PATHS, MaxNodes=1, MaxSteps=0, CatSteps=3,
                                              TestKinds={"any", "node", "text"}, TestNames={"a"}),
                           name="paths-catalogue-3step", kind="sel-set")
        run.gen_and_replay("MC_Paths", consts(BASE_PATHS, MaxNodes=3, MaxSteps=3, CatSteps=0,
                                              TestKinds={"any", "node", "text"}, TestNames={"a"}),
                           name="paths-alldocs-3step", kind="sel-set")
    # (3b) three steps over the axes that the builder rewrites together (descendant shortcuts, SmartDesc)
    run.gen_and_replay("MC_Paths", consts(BASE_PATHS, MaxNodes=4 if q else 5, MaxSteps=3, CatSteps=3, AttrNames=set(), WithComment=False,
                                          StepAxes={"descendant", "descendant-or-self", "self", "child"} if q else
                                          {"descendant", "descendant-or-self", "self", "child", "parent", "ancestor"},
                                          TestKinds={"any"} if q else {"any", "node"}, TestNames={"a"}),
                       name="paths-desc-3step", kind="sel-set")
    # (3c) implementation-shaped model XQueryVM: TLC checks that the modelled iterator pipeline (builder rewrites + cursor
    #      walks) delivers exactly the denotation; the engine's real cursor movements, recorded by the harness navigator,
    #      are compared with the model's (a difference is MODEL DRIFT: reported, never a verdict)
    vm = consts(BASE_PATHS, MaxNodes=3 if q else 4, MaxSteps=2, CatSteps=1 if q else 2, CatIds=ALL_CAT, Deviations=set(),
                TestKinds={"any", "node", "text"}, TestNames={"a"})
    r = run.tlc("MC_VM", vm, invariants=("VMRefines", "Emit"), name="vm-refines-denotation")
    stats, drift = run.replay(r["outfile"], kind="vm", render="full", stage="vm-conformance")
    run.drift = getattr(run, "drift", []) + drift
    # model sensitivity: each defect the pinned tree had (F-C01-1..4) is refuted by TLC when re-introduced in the model
    for dev in ("shortcut-any-test", "dod-leaf", "foll-attr", "attr-of-attr"):
        r = run.tlc("MC_VM", consts(vm, MaxNodes=4, CatSteps=0, Deviations={dev}, WithComment=False, TextVals=set(),
                                    StepAxes={"descendant", "descendant-or-self", "child", "attribute", "following"},
                                    TestKinds={"any"}, TestNames={"a"}),
                    invariants=("VMRefines",), name="vm-deviation-" + dev, out=False, allow_violation=True)
        if "Invariant VMRefines is violated" not in r["log"]:
            raise ToolingError("XQueryVM does not refute the re-introduced defect %s: vacuous model" % dev)
    # (4) Flow B: seeded documents up to 20 nodes, paths up to 4 steps, recorded
    #     from the engine and validated by TLC against the denotation
    tr = run.drive("paths", 1500 if q else 20000, extra=["-nodes", "20", "-steps", "4"])
    run.validate_batch(tr, "paths-flowB")
    scale_stage(run, 1)


ALL_CAT = set(range(1, 10))
SMALL_CAT = {1, 2, 3, 5, 6}
BASE_EXPR = dict(MaxNodes=1, UseCat=True, UseVal=False, CatIds=ALL_CAT, ElemNames={"a", "b"}, AttrNames=set(), AttrPrefixes={""}, TextVals={"1"},
                 WithComment=False)


VM2_AXES = {"child", "descendant", "following-sibling", "ancestor", "self", "parent", "preceding-sibling", "following", "preceding",
            "descendant-or-self", "ancestor-or-self"}
VM2_BASE = dict(MaxNodes=1, UseCat=True, CatIds={1, 3, 5}, ElemNames={"a", "b"}, TextVals={"1"}, HostAxes=VM2_AXES,
                PredAxes={"child", "ancestor", "following", "preceding-sibling", "descendant", "parent"}, Parts={1, 2, 3, 4}, Deviations=set())
# each re-introduces in the MODEL a defect the pinned tree had; TLC must refute VM2Refines
VM2_DEVIATIONS = [
    ("smart-through-filter", {}), ("anc-table-not-reset", {}), ("dod-level-not-reset", {}), ("foll-prec-not-reset", {}),
    ("merge-not-reset", dict(MaxNodes=6, UseCat=False, CatIds=set(), ElemNames={"a"}, TextVals=set(), HostAxes={"child"},
                             PredAxes={"child"}, Parts={1})),
]


def vm2_stage(run, parts, tag):
    q = run.tier == "quick"
    c = consts(VM2_BASE, MaxNodes=(3 if tag == "C02" else 4) if q else 4, CatIds={3, 5} if q else ALL_CAT, Parts=parts)
    r = run.tlc("MC_VM2", c, invariants=("VM2Refines", "Emit"), name="vm2-refines-denotation")
    stats, drift = run.replay(r["outfile"], kind="vm", render="full", stage="vm2-conformance")
    run.drift = getattr(run, "drift", []) + drift


def run_C02(run):
    q = run.tier == "quick"
    # (1) one atomic predicate on a host step: host axis x predicate axis x atom form
    run.gen_and_replay("MC_Expr", consts(BASE_EXPR, Family="C02a-small" if q else "C02a", MaxNodes=4 if q else 5, UseCat=True),
                       name="preds-atoms", kind="sel-set")
    # (2) nesting depth 2, and/or/not combinations
    run.gen_and_replay("MC_Expr", consts(BASE_EXPR, Family="C02b", MaxNodes=1 if q else 4, UseCat=True, CatIds=SMALL_CAT if q else ALL_CAT),
                       name="preds-nested", kind="sel-set")
    # (3) two predicates on one step
    run.gen_and_replay("MC_Expr", consts(BASE_EXPR, Family="C02two", MaxNodes=1 if q else 4, UseCat=True),
                       name="preds-two", kind="sel-set")
    # (4) parenthesised path followed by a predicate
    run.gen_and_replay("MC_Expr", consts(BASE_EXPR, Family="C02paren", MaxNodes=4 if q else 5, UseCat=True),
                       name="preds-paren", kind="sel-set")
    run.gen_and_replay("MC_Expr", consts(BASE_EXPR, Family="C02paren2", MaxNodes=4 if q else 5, UseCat=True),
                       name="preds-paren-several", kind="sel-set")
    # (5) and/or over multi-step operands with function-valued / positional nested predicates (merge rewrite)
    run.gen_and_replay("MC_Expr", consts(BASE_EXPR, Family="C02merge", MaxNodes=4 if q else 5, UseCat=True),
                       name="preds-merge-operands", kind="sel-set")
    # (5b) predicates that are two-step descendant/child paths (descendant-over-descendant inside a predicate)
    run.gen_and_replay("MC_Expr", consts(BASE_EXPR, Family="C02desc2", MaxNodes=4 if q else 5, UseCat=True, CatIds=SMALL_CAT if q else ALL_CAT),
                       name="preds-two-step-paths", kind="sel-set")
    # (5c) a predicate-carrying step continued by a further step on every axis (and through '//')
    run.gen_and_replay("MC_Expr", consts(BASE_EXPR, Family="C02cont", MaxNodes=1 if q else 4, UseCat=True, CatIds={3, 5} if q else ALL_CAT),
                       name="preds-then-steps", kind="sel-set")
    # (5c') count() of two-step paths that reach a node from several inputs (exercises the recorded finding KF-C02-2 in every run)
    run.gen_and_replay("MC_Expr", consts(BASE_EXPR, Family="C02count", MaxNodes=1 if q else 4, UseCat=True, CatIds={1, 3, 7} if q else ALL_CAT),
                       name="preds-count-two-step", kind="sel-set")
    # (5c'') count() of a step with a boolean predicate followed by [n]: the argument keeps running positions, the verdict for
    #        one candidate must not depend on the candidates tested before it (a clone of the argument shared between calls)
    run.gen_and_replay("MC_Expr", consts(BASE_EXPR, Family="C02countpos", MaxNodes=1 if q else 5, UseCat=True, CatIds=ALL_CAT),
                       name="preds-count-positional", kind="sel-set")
    # (5d) XQueryVM2: the implementation-shaped model of the predicate pipeline (filter / merge rewrite / group, Evaluate
    #      resets, cursor save/restore).  TLC checks it delivers the denotation (VM2Refines); the engine's delivery sequence
    #      and navigator movements are compared with the model's (a difference is MODEL DRIFT: reported, never a verdict)
    vm2_stage(run, {1, 3, 4, 8}, "C02")
    for dev, cfgd in VM2_DEVIATIONS:
        r = run.tlc("MC_VM2", consts(VM2_BASE, Deviations={dev}, **cfgd), invariants=("VM2Refines",),
                    name="vm2-deviation-" + dev, out=False, allow_violation=True)
        if "Invariant VM2Refines is violated" not in r["log"]:
            raise ToolingError("XQueryVM2 does not refute the re-introduced defect %s: vacuous model" % dev)
    # (5e) the model reproduces the recorded finding KF-C02-1 (TLC must refute the refinement without the exclusion)
    r = run.tlc("MC_VM2", consts(VM2_BASE, MaxNodes=5, UseCat=False, CatIds=set(), ElemNames={"a"}, TextVals={"1"}, HostAxes={"descendant"},
                                 PredAxes={"child"}, Parts={8}), invariants=("VM2RefinesKF",), name="vm2-reproduces-KF-C02-1", out=False,
                allow_violation=True)
    if "Invariant VM2RefinesKF is violated" not in r["log"]:
        raise ToolingError("XQueryVM2 no longer reproduces the recorded finding KF-C02-1")
    # (5f) TRACE VALIDATION against the implementation-shaped model: seeded documents up to 16 nodes x random expressions of the
    #      C02/C03 grammar run on the engine with a recording navigator; TLC (XVMBatch.tla) requires the recorded delivery
    #      sequence and cursor movements to be exactly the model's behaviour (a difference is model drift, never a verdict)
    tr = run.drive("vm", 2500 if q else 30000, extra=["-nodes", "16"])
    run.validate_batch(tr, "vm2-trace-validation", consts={"Deviations": set()}, module="XVMBatch", drift=True,
                       env_extra={"JAVA_TOOL_OPTIONS": "-Xss256m"})
    # (6) Flow B: seeded documents up to 14 nodes, paths of up to 3 steps carrying up to 3 predicates of nesting depth 2
    tr = run.drive("preds", 2500 if q else 40000, extra=["-nodes", "14"])
    run.validate_batch(tr, "preds-flowB")


def run_C03(run):
    q = run.tier == "quick"
    ec = consts(BASE_EXPR, TextVals={"1"}, MaxNodes=5 if q else 6, UseCat=True)
    # (1) child step with a positional first predicate in 8 host positions
    run.gen_and_replay("MC_Expr", consts(ec, Family="C03a"), name="pos-first", kind="sel-set")
    # (1b) node() / text() / comment() / * child steps among siblings of mixed kinds
    run.gen_and_replay("MC_Expr", consts(ec, Family="C03kinds", MaxNodes=4 if q else 5, WithComment=True, ElemNames={"a"}, CatIds={2, 5, 6}),
                       name="pos-first-mixed-kinds", kind="sel-set")
    # (2) positional predicate followed by a boolean predicate
    run.gen_and_replay("MC_Expr", consts(ec, Family="C03b", MaxNodes=4 if q else 5), name="pos-then-bool", kind="sel-set")
    # (2a) a positional child step continued by a step on every axis, by '//', by another positional step
    run.gen_and_replay("MC_Expr", consts(ec, Family="C03cont", MaxNodes=1 if q else 5, CatIds={3, 5, 7} if q else ALL_CAT), name="pos-then-steps", kind="sel-set")
    # (2a') the positional forms used as predicates: re-evaluated for every candidate of the host step
    run.gen_and_replay("MC_Expr", consts(ec, Family="C03nested", MaxNodes=1 if q else 5, CatIds={3, 5, 7} if q else ALL_CAT), name="pos-nested", kind="sel-set")
    # (2b) XQueryVM2 on numeric predicates (position counters, positmap, merge rewrite, (path)[n] re-rooting)
    vm2_stage(run, {2, 3, 4, 5, 7}, "C03")
    # the model reproduces the recorded finding KF-C03-1 (fractional numeric predicates truncated): TLC must refute the
    # refinement without the exclusion
    r = run.tlc("MC_VM2", consts(VM2_BASE, MaxNodes=3, UseCat=False, CatIds=set(), ElemNames={"a"}, TextVals=set(), HostAxes={"child"},
                                 PredAxes={"child"}, Parts={2}), invariants=("VM2RefinesKF",), name="vm2-reproduces-KF-C03-1", out=False,
                allow_violation=True)
    if "Invariant VM2RefinesKF is violated" not in r["log"]:
        raise ToolingError("XQueryVM2 no longer reproduces the recorded finding KF-C03-1")
    scale_stage(run, 3)
    # trace validation against the model on seeded larger documents (see C02 (5f)); other seed
    tr = run.drive("vm", 2500 if q else 30000, extra=["-nodes", "14"], seed_offset=100)
    run.validate_batch(tr, "vm2-trace-validation", consts={"Deviations": set()}, module="XVMBatch", drift=True,
                       env_extra={"JAVA_TOOL_OPTIONS": "-Xss256m"})
    for dev in ("pos-ignores-test", "child-posit-not-reset", "group-posit-not-reset"):
        r = run.tlc("MC_VM2", consts(VM2_BASE, Deviations={dev}, Parts={2, 4, 5}, HostAxes={"child"}), invariants=("VM2Refines",),
                    name="vm2-deviation-" + dev, out=False, allow_violation=True)
        if "Invariant VM2Refines is violated" not in r["log"]:
            raise ToolingError("XQueryVM2 does not refute the re-introduced defect %s: vacuous model" % dev)
    # (3) (flat path)[n] and (//name)[n]
    run.gen_and_replay("MC_Expr", consts(ec, Family="C03paren"), name="paren-nth", kind="sel-set")


VAL_EXPR = consts(BASE_EXPR, UseCat=False, UseVal=True)


def float_stage(run, fam, least=1000):
    r, st = run.gen_and_replay("MC_Float", {"Family": fam}, name="float-" + fam, kind="f64")
    if st["cases"] < least:
        raise ToolingError("MC_Float %s produced only %d cases: vacuous" % (fam, st["cases"]))


def float_flowB(run, n, stage="float-flowB", seed_offset=0):
    """recorded-trace direction over the exact binary64 model: seeded random numerals of 1-20 integer and 0-20 fraction
    digits, arithmetic / comparison / string() / substring() trees of depth <= 3, run on the engine, validated by TLC"""
    tr = run.drive("f64", n, seed_offset=seed_offset)
    run.validate_batch(tr, stage, module="XFBatch", skip_ok=True, invariants=("Validate", "Sanity"))


def run_C07(run):
    q = run.tier == "quick"
    run.gen_and_replay("MC_Expr", consts(VAL_EXPR, Family="C07cmp"), name="cmp-matrix", kind="eval")
    run.gen_and_replay("MC_Expr", consts(VAL_EXPR, Family="C07bool"), name="bool-ops", kind="eval")
    run.gen_and_replay("MC_Expr", consts(VAL_EXPR, Family="C07pred"), name="cmp-as-predicate", kind="sel-set")
    tr = run.drive("values-bool", 2500 if q else 40000, extra=["-nodes", "12"])
    run.validate_batch(tr, "cmp-flowB")
    # exact binary64 model (XFloat.tla, no magnitude bound): the six comparisons between numbers and between a
    # node-set and a number over values that are not small dyadic rationals (0.1 + 0.2 against '0.3', 2^53 + 1,
    # 19- and 20-digit integers); the reply is compared bit for bit
    float_stage(run, "cmp")
    float_stage(run, "pred")      # the same comparisons as predicates of /r/*[...] (Select)
    float_flowB(run, 4000 if q else 40000, seed_offset=7)


def run_C08(run):
    q = run.tier == "quick"
    run.gen_and_replay("MC_Expr", consts(VAL_EXPR, Family="C08d1"), name="arith-depth1", kind="eval")
    run.gen_and_replay("MC_Expr", consts(VAL_EXPR, Family="C08d2" if q else "C08d2big"), name="arith-depth2", kind="eval")
    # depth 3-4 by seeded generation (Flow B)
    tr = run.drive("values-num", 3000 if q else 50000, extra=["-nodes", "12"])
    run.validate_batch(tr, "arith-flowB")
    # exact binary64 model (XFloat.tla): correctly rounded literals and document values, + - * div mod, floor,
    # ceiling, number(), sum(), string() of a number as the shortest decimal that reads back; bit-for-bit
    for fam in ("arith1", "fn", "str") + (() if q else ("arith2",)):
        float_stage(run, fam)
    # the edges of the binary64 range (309-digit literals, subnormals written with 324 fraction digits): overflow to
    # infinity, gradual underflow, the largest double and its neighbours
    float_stage(run, "extremeq" if q else "extreme", least=40)
    float_flowB(run, 6000 if q else 60000)


def run_C09(run):
    q = run.tier == "quick"
    for fam in ("C09two", "C09one", "C09sub", "C09nest"):
        run.gen_and_replay("MC_Expr", consts(VAL_EXPR, Family=fam), name="str-" + fam[3:], kind="eval")
    tr = run.drive("values-str", 3000 if q else 50000, extra=["-nodes", "12"])
    run.validate_batch(tr, "str-flowB")
    # exact binary64 model (XFloat.tla): substring() with start/length that are halves, inexact sums, NaN, infinities and
    # magnitudes beyond 2^63 (round() computed on the exact value), string-length()/concat() over string() of inexact numbers
    float_stage(run, "substr")
    float_flowB(run, 4000 if q else 40000, seed_offset=11)


def run_C04(run):
    q = run.tier == "quick"
    # every call history of up to L calls on ONE compiled expression, for every
    # expression of the pool of stateful constructs; iterators abandoned after
    # every prefix; contexts in the same and in another document
    run.hist("C04", 4 if q else 5, nslots=2, maxiters=3, docs_per=1)
    # the same node-set expressions as operands evaluated in place (scalar results): E;E;E...
    run.hist("C04ops", 3 if q else 4, nslots=2, maxiters=4, docs_per=2 if q else 1, stage="hist-inplace")
    # ... and inside function arguments (cloned per call): boolean(E = 'x'), not(E or false()), concat(string(E = ..), ..)
    run.hist("C04fn", 3 if q else 4, nslots=2, maxiters=4, docs_per=1, stage="hist-infunction")


SHARE_CALLS = {"Select", "Evaluate", "StringJoin", "Concat", "Matches", "Compile"}


def run_C05(run):
    q = run.tier == "quick"
    # (1) the ownership protocol: all interleavings of 3 goroutines at access granularity (intended design)
    run.tlc("XShare", {"Procs": {1, 2, 3}, "Calls": SHARE_CALLS, "MaxCalls": 1 if q else 2, "EvaluateOnShared": False,
                       "AssignCapturedVar": False}, invariants=("NoConflict", "LockDiscipline", "MutualExclusion"),
            name="share-intended", out=False)
    # (1b) model sensitivity: the two deviations the pinned tree had ARE found by TLC (a lead, never a verdict)
    for flag in ("EvaluateOnShared", "AssignCapturedVar"):
        c = {"Procs": {1, 2}, "Calls": SHARE_CALLS, "MaxCalls": 1, "EvaluateOnShared": False, "AssignCapturedVar": False}
        c[flag] = True
        r = run.tlc("XShare", c, invariants=("NoConflict",), name="share-asbuilt-" + flag, out=False, allow_violation=True)
        if "Invariant NoConflict is violated" not in r["log"]:
            raise ToolingError("XShare does not detect the %s deviation: the model is vacuous" % flag)
    # (2) cooperative replay of every API-level interleaving of up to 3 clients on ONE shared Expr
    run.hist("C04", 4 if q else 5, nslots=2, maxiters=3, docs_per=1, stage="hist-interleavings")
    # (3) real goroutines under the race detector, results compared with the sequential ones
    run.race(6 if q else 60, goroutines=8)


CACHE_KEYS = {"k1", "k2", "k3", "k4", "bad"}


def describe_cache(run_rec, rj, line, stage):
    evs = run_rec.get("evs") or run_rec.get("calls") or []
    upto = evs[:rj["i"]] if rj["i"] else evs[:8]
    return {"stage": stage, "flow": "B", "line": line, "kind": run_rec["k"], "expr": "cache cap=%s via=%s" % (run_rec["cap"], run_rec.get("via", "goroutines")),
            "ctx": 0, "fail": rj["fail"], "via": run_rec.get("via", "concurrent"), "want": "AbstractCache (XCacheBatch.tla)",
            "got": {"events": upto, "samples": run_rec.get("samples", [])[:20]}, "case": {"cap": run_rec["cap"], "keys": [e["key"] for e in evs][:40]}}


def run_C16(run):
    q = run.tier == "quick"
    import subprocess
    # (1) the implementation-shaped model of loadingCache.get: all interleavings at lock-step granularity
    for cap in ((1, 2) if q else (0, 1, 2, 3)):
        run.tlc("XCache", {"Keys": {"k1", "k2", "k3", "bad"}, "BadKeys": {"bad"}, "Cap": cap, "Procs": {1, 2} if q else {1, 2, 3},
                           "MaxGets": 4 if q else 5, "EvictAt": "ge"},
                invariants=("MutualExclusion", "AccessUnderLock", "CapBound", "NoBadKey", "Exact", "ReturnsRequested", "BadNeverHit"),
                properties=("AbstractStep",), name="cache-impl-cap%d" % cap, out=False)
    # (1b) model sensitivity: the off-by-one eviction mutant is refuted by TLC
    r = run.tlc("XCache", {"Keys": {"k1", "k2", "k3", "bad"}, "BadKeys": {"bad"}, "Cap": 2, "Procs": {1}, "MaxGets": 4, "EvictAt": "gt"},
                invariants=("CapBound",), name="cache-impl-mutant", out=False, allow_violation=True)
    if "Invariant CapBound is violated" not in r["log"]:
        raise ToolingError("XCache does not refute the off-by-one eviction: vacuous model")
    # (1c) Apalache: the capacity/exactness/no-bad-key invariant is INDUCTIVE for the sequential abstraction, for every
    #      capacity 0..8 over 10 keys and any number of gets (Init => IndInv; IndInv /\ Next => IndInv')
    run.apalache("XCacheInd", ["--cinit=ConstInit", "--init=Init", "--inv=IndInv", "--length=0"], "cache-indinv-base")
    run.apalache("XCacheInd", ["--cinit=ConstInit", "--init=IndInit", "--inv=IndInv", "--length=1"], "cache-indinv-step")
    # (2) every key sequence x capacity on a REAL cache (through the hook and through matches() with a
    #     client-installed RegexpCache); recorded runs validated against AbstractCache
    cb = {"Keys": {"k1", "k2", "k3", "bad"}, "BadKeys": {"bad"}, "Caps": {0, 1, 2, 3}, "MaxLen": 5 if q else 7, "Chunk": 64}
    g = run.tlc("XCacheBatch", dict(cb, Mode="gen"), invariants=("EmitSeq",), name="cache-seqs-gen")
    run.nstage += 1
    trace = os.path.join(run.work, "%02d-cache.trace.ndjson" % run.nstage)
    p = subprocess.run([run.xvh, "cache", "-in", g["outfile"], "-out", trace, "-long"], capture_output=True, text=True)
    if p.returncode != 0:
        raise ToolingError("cache driver failed: %s%s" % (p.stdout, p.stderr))
    run.log(p.stdout.strip())
    run.evaluations += sum(line.count('"key"') for line in open(trace))
    run.validate_lines(trace, "cache-seqs", "XCacheBatch", dict(cb, Mode="validate", Keys=CACHE_KEYS), describe_cache)
    # (3) goroutines on one cache under the race detector; calls stamped with a logical clock
    binary = run.build(race=True)
    run.nstage += 1
    ctrace = os.path.join(run.work, "%02d-cacheconc.trace.ndjson" % run.nstage)
    p = subprocess.run([binary, "cacheconc", "-seed", str(run.seed), "-runs", "40" if q else "400", "-out", ctrace],
                       capture_output=True, text=True)
    if p.returncode not in (0, 66):
        raise ToolingError("cacheconc driver failed (%d): %s%s" % (p.returncode, p.stdout, p.stderr[-2000:]))
    run.log(p.stdout.strip())
    if "WARNING: DATA RACE" in p.stderr:
        rep = p.stderr.split("WARNING: DATA RACE")[1]
        if "antchfx/xpath" in rep:
            run.mismatches.append({"stage": "cache-conc", "flow": "B", "kind": "race", "expr": "data race in the cache", "ctx": 0,
                                   "fail": "data-race", "via": "go -race", "want": "none", "got": {"report": rep[:1500]}, "case": {}})
    run.evaluations += sum(line.count('"key"') for line in open(ctrace))
    run.validate_lines(ctrace, "cache-conc", "XCacheBatch", dict(cb, Mode="validate", Keys=CACHE_KEYS), describe_cache)
    # (4) matches()/replace(): template rewriting specified in XRegex.tla, Go's regexp as environment oracle
    g = run.tlc("XRegex", {}, invariants=("Emit", "RewriteSanity"), name="regex-gen")
    mm = g["outfile"] + ".mismatch"
    st = g["outfile"] + ".stats"
    p = subprocess.run([run.xvh, "regex", "-in", g["outfile"], "-out", mm, "-stats", st], capture_output=True, text=True)
    if p.returncode != 0:
        raise ToolingError("regex replay failed: %s%s" % (p.stdout, p.stderr))
    run.log(p.stdout.strip())
    stats = json.load(open(st))
    run.traces += stats["cases"]
    run.evaluations += stats["evaluations"]
    run.distinct_nt = getattr(run, "distinct_nt", 0) + stats["distinct_nontrivial"]
    run.samples += stats["samples"][:2]
    run.stages.append({"stage": "regex", "flow": "A", "cases": stats["cases"], "evaluations": stats["evaluations"],
                       "distinct_nontrivial": stats["distinct_nontrivial"], "mismatches": stats["mismatches"]})
    for line in open(mm):
        m = json.loads(line)
        m["stage"] = "regex"
        m["flow"] = "B"   # re-confirmation is done by the same deterministic replay
        run.mismatches.append(m)


def run_C14(run):
    q = run.tier == "quick"
    run.gen_and_replay("MC_NS", {"MaxNodes": 3 if q else 4, "TestAxes": AXES}, name="ns-configs", kind="sel-set")
    # Flow B: seeded documents up to 16 nodes with 0..3 namespaces, 6 maps, both navigator flavours
    tr = run.drive("ns", 4000 if q else 60000, extra=["-nodes", "16"])
    run.validate_batch(tr, "ns-flowB")


def run_C15(run):
    q = run.tier == "quick"
    base = consts(BASE_EXPR, UseCat=False, UseVal=True)
    run.gen_and_replay("MC_Expr", consts(base, Family="C15fn" if q else "C15fnwrap"), name="typed-functions", kind="noerr")
    run.gen_and_replay("MC_Expr", consts(base, Family="C15ops"), name="typed-operators-axes-vars", kind="noerr")
    # argument VALUES that index into strings and sequences (beyond the end, negative, NaN, infinite, empty)
    run.gen_and_replay("MC_Expr", consts(base, Family="C15edges"), name="edge-values", kind="noerr")


ALL_OPS = {"or", "and", "=", "!=", "<", "<=", ">", ">=", "+", "-", "*", "div", "mod", "|", "/", "//"}
VALUE_OPS = ALL_OPS - {"|", "/", "//"}


def run_C10(run):
    q = run.tier == "quick"
    sy = dict(MaxOps=2, OperandIds={"a", "1", "div", "*", "paren", "lit"}, OpIds=ALL_OPS, WithMinus=False, EvalMode=False)
    inv = ("Emit", "ParserSanity")
    # (1) every ordered pair of operators (chains of 2), operands incl. keyword-named names and '*'
    run.gen_and_parse("MC_Syntax", consts(sy, OperandIds={"a", "1", "div", "*", "paren", "lit"} if q else
                                          {"a", "1", "div", "mod", "and", "or", "*", "paren", "lit", "fn", "@a", ".."}), "chains-2ops", inv)
    # (2) unary minus in every operand position
    run.gen_and_parse("MC_Syntax", consts(sy, OperandIds={"a", "1"} if q else {"a", "1", "*", "div", "paren"}, WithMinus=True),
                      "chains-2ops-minus", inv)
    # (3) chains of 3 (thorough: 4) operators
    run.gen_and_parse("MC_Syntax", consts(sy, MaxOps=3, OperandIds={"a"} if q else {"a", "div", "1"}), "chains-3ops", inv)
    if not q:
        run.gen_and_parse("MC_Syntax", consts(sy, MaxOps=4, OperandIds={"a"}), "chains-4ops", inv)
        run.gen_and_parse("MC_Syntax", consts(sy, MaxOps=5, OperandIds={"a"}, OpIds={"or", "and", "=", "<", "+", "*", "|", "/"}),
                          "chains-5ops", inv)
    # (4) abbreviations and steps as operands
    run.gen_and_parse("MC_Syntax", consts(sy, MaxOps=2, OperandIds={"a", "@a", "..", ".", "ax", "pred", "fn1"},
                                          OpIds={"/", "//", "|", "=", "and", "+", "*"}), "abbreviations", inv)
    # (4a) names with '.', '-' and digits in non-initial position as operands of every operator
    run.gen_and_parse("MC_Syntax", consts(sy, MaxOps=2, OperandIds={"a.b", "a-b", "a1", "a.1", "a-", "a-1", "a-1b", "p:a.b", "1", "."} if not q else {"a.b", "a-b", "a.1", "a-", "a-1", "1"},
                                          OpIds=ALL_OPS), "odd-names", inv)
    # (4b) the expressions of the repository's own test suite through the reference lexer + parser
    run.gen_and_parse("MC_Corpus", {}, "corpus", ("Emit",))
    # (5) hook-independent: the VALUE of unparenthesised chains over constants must be the value of the reference grouping
    run.gen_and_parse("MC_Syntax", consts(sy, MaxOps=2 if q else 3, OperandIds={"1", "2", "3", "0", ".5", "true", "empty"} if q else
                                          {"1", "2", "3", "0", "true"}, OpIds=VALUE_OPS, EvalMode=True, WithMinus=False),
                      "value-chains", inv)
    run.gen_and_parse("MC_Syntax", consts(sy, MaxOps=3, OperandIds={"2", "3"}, OpIds=VALUE_OPS, EvalMode=True, WithMinus=not q),
                      "value-chains-3ops", inv)


def run_C17(run):
    # every damage operator of the listed classes at every applicable position of every seed expression;
    # only strings the REFERENCE parser rejects are emitted; Compile must return an error for each
    run.gen_and_parse("MC_Damage", {}, "damaged-expressions", invariants=("Emit", "SeedsValid"))


CHAR_CLASSES = {" ", "1", "a", "-", ".", ":", "*", "'", '"', "/", "(", ")", "[", "]", "@", ",", "|", "=", "!", "<", "+", "$", "#",
                "~", "^", "`"}
TOK_ALPHABET = [("name", "a"), ("name", "div"), ("name", "and"), ("name", "text"), ("name", "count"), ("name", "child"),
                ("name", "p:a"), ("num", "1"), ("num", ".5"), ("lit", "'x'"), ("sym", "/"), ("sym", "//"), ("sym", "|"),
                ("sym", "+"), ("sym", "-"), ("sym", "="), ("sym", "!="), ("sym", "<"), ("sym", ">="), ("sym", "*"),
                ("sym", "("), ("sym", ")"), ("sym", "["), ("sym", "]"), ("sym", ","), ("sym", "@"), ("sym", "::"),
                ("sym", "."), ("sym", ".."), ("sym", "$"), ("bad", "'x"), ("bad", "p:")]


def run_C06(run):
    q = run.tier == "quick"
    # (1) recursion skeleton extracted from the working tree; TLC: every recursive cycle passes a depth guard
    from runner import REPO
    run.nstage += 1
    skel = os.path.join(run.work, "%02d-skel.json" % run.nstage)
    p = subprocess.run([run.xvh, "skel", "-repo", REPO, "-out", skel], capture_output=True, text=True)
    if p.returncode != 0:
        raise ToolingError("skeleton extraction failed: %s%s" % (p.stdout, p.stderr))
    run.log(p.stdout.strip())
    r = run.tlc("XStack", {}, invariants=("EveryCycleGuarded", "Report"), name="stack-skeleton", env_extra={"VERIF_TRACE": skel},
                allow_violation=True, workers=4)
    rep = None
    if os.path.exists(r["outfile"]):
        for line in open(r["outfile"]):
            line = line.strip()
            if line:
                rep = json.loads(json.loads(line) if line.startswith('"') else line)
                break
    if rep is None:
        raise ToolingError("XStack wrote no report:\n" + r["log"][-1500:])
    cyc = set(rep["funcs"])
    if not r["ok"] and not cyc:
        raise ToolingError("XStack failed without reporting a cycle:\n" + r["log"][-1500:])
    info = json.loads(subprocess.run([run.xvh, "deep", "-list"], capture_output=True, text=True).stdout)
    run.stages.append({"stage": "stack-skeleton", "functions": rep["nfuncs"], "call_edges": rep["nedges"], "guarded": rep["guarded"],
                       "unguarded_cycle_functions": sorted(cyc)})
    if cyc:
        run.notes.append("XStack: unguarded recursive cycle through %s (a lead; the verdict comes from pumping on the real code)" % sorted(cyc))
    # (1b) expression-shaped inputs: every function with every tuple of 0-3 typed constant / path arguments, every operator
    #      with every typed operand pair (the C15 matrix), through Compile / CompileWithNS / MustCompile
    base15 = consts(BASE_EXPR, MaxNodes=1, UseCat=True, CatIds={1}, UseVal=False)
    for fam in (("C15fn",) if q else ("C15fnwrap", "C15ops", "C15edges")):
        run.gen_and_replay("MC_Expr", consts(base15, Family=fam), name="typed-" + fam, kind="total", render="both")
    # (2) pump every nesting pattern on the real code, each run in its own process (a stack overflow kills it)
    depths = [100, 10000, 1000000] if q else [100, 10000, 100000, 1000000, 10000000]
    npump = 0
    for pat in info["patterns"]:
        for d in depths:
            try:
                p = subprocess.run([run.xvh, "deep", "-pattern", pat, "-depth", str(d)], capture_output=True, text=True, timeout=60)
                out = p.stdout.strip().splitlines()[-1] if p.stdout.strip() else ""
                bad = None if (p.returncode == 0 and out in ("ok", "err")) else ("crash (exit %d): %s" % (p.returncode, (out or p.stderr[:300])))
            except subprocess.TimeoutExpired:
                bad = "no result within 60 s"
            npump += 1
            if bad:
                run.mismatches.append({"stage": "pump", "flow": "B", "kind": "deep", "expr": "%s at depth %d" % (pat, d), "ctx": 0,
                                       "fail": "crash-or-hang", "via": "Compile (subprocess)", "want": "expression or error",
                                       "got": {"outcome": bad}, "case": {"pattern": pat, "depth": d}})
                break   # deeper instances of the same pattern add nothing
    if cyc and not any(m.get("stage") == "pump" for m in run.mismatches):
        raise ToolingError("TLC found an unguarded recursive cycle through %s but no nesting pattern of the harness crashes the real "
                           "code: extend pumpPatterns in harness/cmd/xvh/total.go so that the cycle is pumped" % sorted(cyc))
    run.evaluations += npump
    run.traces += npump
    run.stages.append({"stage": "pump", "patterns": len(info["patterns"]), "depths": depths, "runs": npump})
    run.log("pump: %d patterns x depths %s: %d subprocess runs" % (len(info["patterns"]), depths, npump))
    # (3) every character-class string / token string up to a length, plus seeded random strings and mutations
    lex = {"MaxChars": 3 if q else 4, "MaxToks": 3 if q else 4, "CharClasses": CHAR_CLASSES}
    g = run.tlc("MC_Lexical", lex, invariants=("Emit",), name="lexical-strings")
    mm = g["outfile"] + ".mismatch"
    st = g["outfile"] + ".stats"
    p = subprocess.run([run.xvh, "total", "-in", g["outfile"], "-out", mm, "-stats", st, "-seed", str(run.seed),
                        "-random", "20000" if q else "400000", "-corpus", os.path.join(VERIF, "corpus", "expressions.txt")],
                       capture_output=True, text=True)
    if p.returncode == 3:
        run.mismatches.append({"stage": "totality", "flow": "B", "kind": "total", "expr": p.stderr.strip()[-300:], "ctx": 0, "fail": "hang",
                               "via": "Compile", "want": "termination", "got": {}, "case": {}})
    elif p.returncode != 0:
        raise ToolingError("totality replay failed (%d): %s%s" % (p.returncode, p.stdout, p.stderr[-2000:]))
    run.log(p.stdout.strip())
    if os.path.exists(st):
        stats = json.load(open(st))
        run.traces += stats["cases"]
        run.evaluations += stats["evaluations"]
        run.distinct_nt = getattr(run, "distinct_nt", 0) + stats["distinct_nontrivial"]
        run.samples += stats["samples"][:3]
        run.stages.append({"stage": "totality", "inputs": stats["cases"], "compile_rounds": stats["evaluations"],
                           "accepted": stats["nontrivial"], "observatory_ill_formed_but_accepted": stats["accepted_ill_formed"],
                           "violations": stats["mismatches"]})
        for line in open(mm):
            m = json.loads(line)
            m["stage"] = "totality"
            m["flow"] = "B"
            run.mismatches.append(m)
    os.remove(g["outfile"])


def run_C12(run):
    q = run.tier == "quick"
    # every iterator the harness drains in this check is asked 300 more times after its end: it must keep answering false
    os.environ["VERIF_PAST_END"] = "300"
    scale_stage(run, 12)
    # the abstract API machine itself (MC_Api.tla): protocol properties of the SPECIFICATION for all interleavings of two
    # iterators, and the session validator accepts every behaviour the abstract machine can show
    combos = [("seq", 1, 1), ("once", 3, 2), ("set", 4, 3)] if q else [(m, e, d) for m in ("seq", "once", "set") for e in (1, 2, 3, 4) for d in (1, 3)]
    for mode, ex, doc in combos:
        run.tlc("MC_Api", {"MaxIters": 2, "MaxCalls": 7 if q else 8, "Mode": mode, "DocId": doc, "ExprId": ex},
                invariants=("GivenInTarget", "OnceNoDup", "CompleteAtFalse", "SeqOrder", "Purity", "ValidatorAcceptsSpec"),
                properties=("StickyFalse",), name="api-machine-%s-e%d-d%d" % (mode, ex, doc), out=False)
    # design level: in the implementation-shaped model XQueryVM every flat path is delivered in strictly increasing document
    # order (TLC invariant VMOrdered); the engine's delivery SEQUENCE is then compared with the model's (kind vm)
    vm = consts(BASE_PATHS, MaxNodes=3 if q else 4, MaxSteps=2 if q else 3, CatSteps=2, CatIds=ALL_CAT, Deviations=set(),
                StepAxes={"child", "attribute", "self", "descendant", "descendant-or-self"},
                TestKinds={"any", "node", "text"}, TestNames={"a"})
    r = run.tlc("MC_VM", vm, invariants=("VMRefines", "VMOrdered", "Emit"), name="vm-flat-ordered")
    # VERDICT: for flat paths the model sequence is the denotation in document order (TLC-proved); the engine must deliver
    # exactly that sequence, in the abbreviated and in the unabbreviated spelling
    keep, run.keep = run.keep, True
    stats, ms = run.replay(r["outfile"], kind="vm-seq", render="both", stage="vm-flat-order")
    run.mismatches += ms
    run.keep = keep
    stats, drift = run.replay(r["outfile"], kind="vm", render="full", stage="vm-flat-conformance")
    run.drift = getattr(run, "drift", []) + drift
    # flat paths: exact document order; every node-set expression: protocol
    run.hist("C12" if q else "C12big", 3 if q else 4, nslots=1, maxiters=2, docs_per=2 if q else 4, stage="hist-flat")
    run.hist("C04", 4 if q else 5, nslots=1, maxiters=2, docs_per=1, stage="hist-nonflat")


def run_C13(run):
    q = run.tier == "quick"
    scale_stage(run, 13)   # absolute paths from 66-72 levels deep
    comp = dict(MaxNodes=4 if q else 5, UseCat=True, CatIds=ALL_CAT, ElemNames={"a", "b"}, AttrNames={"a"}, TextVals={"1"}, WithComment=True,
                RelAxes=AXES, PredMode=True)
    # (1) /addr(n)/p from every start node must select what p selects at n
    run.gen_and_replay("MC_Compose", comp, name="compose-addr", kind="sel-set")
    # (2) wrappers P[true()], (P), P|P, not(not(P)), (P)[true()] over all 1-2 step paths (relative and absolute)
    run.gen_and_replay("MC_Expr", consts(BASE_EXPR, Family="C13wrap", MaxNodes=3 if q else 4, UseCat=True, AttrNames={"a"}),
                       name="wrappers", kind="sel-set")
    # (2b) wrappers over two steps on different axes, on the catalogue (deep and twin-branch documents)
    run.gen_and_replay("MC_Expr", consts(BASE_EXPR, Family="C13wrapMixed", MaxNodes=1 if q else 3, UseCat=True, AttrNames={"a"},
                                         CatIds={2, 3, 5, 9} if q else ALL_CAT), name="wrappers-mixed-axes", kind="sel-set")
    run.gen_and_replay("MC_Expr", consts(BASE_EXPR, Family="C13wrapPred", MaxNodes=4 if q else 5, UseCat=True),
                       name="wrappers-pred", kind="sel-set")
    # (3) absolute paths with predicates from every start node (predicate-free ones are in C01)
    run.gen_and_replay("MC_Expr", consts(BASE_EXPR, Family="C02a-small", MaxNodes=1, UseCat=True), name="abs-from-everywhere",
                       kind="sel-set")


def run_C11(run):
    q = run.tier == "quick"
    # element names that contain '-' and digits, repeated names and values, attributes, text, comments
    base = consts(BASE_EXPR, UseCat=True, ElemNames={"a", "a-1"}, AttrNames={"a"}, TextVals={"1", "-1"}, WithComment=True)
    run.gen_and_replay("MC_Expr", consts(base, Family="C11pairs", MaxNodes=4 if q else 5), name="union-pairs", kind="sel-once")
    run.gen_and_replay("MC_Expr", consts(base, Family="C11more", MaxNodes=4 if q else 5), name="union-nested-seq", kind="sel-once")
    # unions inside predicates (evaluated again for every candidate): set semantics
    run.gen_and_replay("MC_Expr", consts(base, Family="C11pred", MaxNodes=4 if q else 5), name="union-in-predicates", kind="sel-set")
    tr = run.drive("unions", 2500 if q else 40000, extra=["-nodes", "16"])
    run.validate_batch(tr, "unions-flowB")
    scale_stage(run, 11)
    # node identity (XHash.tla): the key getHashCode hashes is injective on every document (TLC, KeyInjective); the two
    # non-injective keys of the past are refuted; on the engine: no two nodes of a document hash alike (VERDICT), and the
    # hash is FNV-64a of exactly the specified key (a difference without collision is model drift)
    hc = dict(MaxNodes=5 if q else 6, UseCat=True, ElemNames={"a", "a-1"}, AttrNames={"a"}, AttrPrefixes={"", "p", "q"}, TextVals={"1", "-1"},
              WithComment=True, Deviations=set())
    r = run.tlc("MC_Hash", hc, invariants=("KeyInjective", "Emit"), name="hash-key-injective")
    stats, ms = run.replay(r["outfile"], kind="hash", render="full", stage="hash-conformance")
    run.mismatches += [m for m in ms if m["fail"] != "hash-key"]
    run.drift = getattr(run, "drift", []) + [m for m in ms if m["fail"] == "hash-key"]
    for dev in ("name-first", "no-prefix"):
        r = run.tlc("MC_Hash", consts(hc, MaxNodes=4, Deviations={dev}), invariants=("KeyInjective",), name="hash-deviation-" + dev,
                    out=False, allow_violation=True)
        if "Invariant KeyInjective is violated" not in r["log"]:
            raise ToolingError("XHash does not refute the non-injective key %s: vacuous model" % dev)
    # unions over attributes that differ in the prefix only (same local name, same value, same element)
    run.gen_and_replay("MC_Expr", consts(base, Family="C11pairs", MaxNodes=4, UseCat=False, ElemNames={"a"}, AttrNames={"a"},
                                         AttrPrefixes={"", "p", "q"}, TextVals={"1"}, WithComment=False),
                       name="union-prefixed-attrs", kind="sel-once")
    # XQueryVM2: the union query in the implementation-shaped model (both operands drained on the first call, kept by identity
    # key, the cursor movements of the hash): each node once (VM2Once), the set union (VM2Refines); conformance as drift
    c6 = consts(VM2_BASE, MaxNodes=3 if q else 4, CatIds={2, 5, 6} if q else ALL_CAT, Parts={6})
    r = run.tlc("MC_VM2", c6, invariants=("VM2Refines", "VM2Once", "Emit"), name="vm2-union")
    stats, drift = run.replay(r["outfile"], kind="vm", render="full", stage="vm2-union-conformance")
    run.drift = getattr(run, "drift", []) + drift
    base2 = consts(base, ElemNames={"b1", "b", "a-1-1"}, TextVals={"1-1", ""}, WithComment=False)
    run.gen_and_replay("MC_Expr", consts(base2, Family="C11pairs", MaxNodes=4, UseCat=False), name="union-pairs-names2", kind="sel-once")


def replay_one(run, path):
    rec = json.load(open(path))
    m = rec["mismatch"]
    run.build()
    cf = os.path.join(run.work, "one.ndjson")
    case, kind = m.get("case"), m.get("kind")
    if m.get("flow") == "B" and "event" in m and "d" in m["event"] and "e" in m["event"]:
        # a recorded engine event that TLC rejected: the reply the specification requires is in "want"
        ev, want = m["event"], m.get("want")
        if isinstance(want, list):
            kind = {"set": "sel-set", "once": "sel-once", "seq": "sel-seq"}.get(ev.get("m", "set"), "sel-set")
        elif isinstance(want, dict) and "t" in want:
            kind = "eval"
        else:
            print("replay: this recorded event carries no required reply (%s): re-run ./check %s %s" % (m.get("fail"), rec["property"], run.tier))
            return 2
        case = {"k": kind, "d": ev["d"], "e": ev["e"], "cs": [ev["ctx"]], "r": [want]}
        if ev.get("ns") is not None:
            case["ns"] = ev["ns"]
        if ev.get("nav"):
            case["nav"] = ev["nav"]
    elif not (isinstance(case, dict) and "r" in case):
        print("replay: a %s finding (%s) is a recorded history, not a single case: re-run ./check %s %s" % (m.get("stage"), m.get("fail"), rec["property"], run.tier))
        return 2
    with open(cf, "w") as f:
        f.write(json.dumps(case) + "\n")
    p = subprocess.run([run.xvh, "replay", "-in", cf, "-out", cf + ".mm", "-stats", cf + ".st", "-kind", kind,
                        "-render", "both", "-workers", "1"], capture_output=True, text=True)
    if p.returncode != 0:
        raise ToolingError("replay failed: " + p.stderr)
    bad = [json.loads(x) for x in open(cf + ".mm")]
    for x in bad:
        print("  # %s ctx=%s via=%s fail=%s want=%s got=%s" % (x["expr"], x["ctx"], x["via"], x["fail"],
                                                            json.dumps(x["want"]), json.dumps(x["got"])))
    if bad:
        print("VIOLATION property=%s replay=%s" % (rec["property"], path))
        return 1
    print("replay: the engine now agrees with the specification on this case")
    return 0


PROPS = {
    "C01": {"run": run_C01},
    "C02": {"run": run_C02},
    "C03": {"run": run_C03},
    "C04": {"run": run_C04},
    "C05": {"run": run_C05},
    "C10": {"run": run_C10},
    "C06": {"run": run_C06},
    "C17": {"run": run_C17},
    "C12": {"run": run_C12},
    "C14": {"run": run_C14},
    "C15": {"run": run_C15},
    "C16": {"run": run_C16},
    "C11": {"run": run_C11},
    "C13": {"run": run_C13},
    "C07": {"run": run_C07},
    "C08": {"run": run_C08},
    "C09": {"run": run_C09},
}
