"""Orchestration shared by every property check (see ../check)."""
import atexit
import hashlib
import json
import os
import re
import shutil
import subprocess
import sys
import time

VERIF = os.path.dirname(os.path.dirname(os.path.abspath(__file__)))
REPO = os.environ.get("VERIF_REPO", "/repo")
NCPU = os.cpu_count() or 4

GOENV = {
    "GOFLAGS": "-mod=mod",
    "GOPROXY": "off",
    "GOSUMDB": "off",
    "GOTOOLCHAIN": "local",
}


class ToolingError(Exception):
    """Something in the machinery failed: exit 2, never a violation."""


def tla_value(v):
    if isinstance(v, bool):
        return "TRUE" if v else "FALSE"
    if isinstance(v, int):
        return str(v)
    if isinstance(v, str):
        return json.dumps(v)
    if isinstance(v, (set, frozenset)):
        return "{" + ", ".join(sorted(tla_value(x) for x in v)) + "}"
    if isinstance(v, (list, tuple)):
        return "<<" + ", ".join(tla_value(x) for x in v) + ">>"
    if isinstance(v, dict):
        return "[" + ", ".join("%s |-> %s" % (k, tla_value(x)) for k, x in v.items()) + "]"
    raise ToolingError("cannot render constant %r" % (v,))


class Run:
    """One invocation of one property check."""

    def __init__(self, prop, tier, keep=False):
        self.prop = prop
        self.tier = tier
        self.seed = int(os.environ.get("VERIF_SEED", "1") or "1")
        self.t0 = time.time()
        self.keep = keep
        self.work = os.path.join(VERIF, "work", "%s-%s-%d" % (prop, tier, os.getpid()))
        shutil.rmtree(self.work, ignore_errors=True)
        os.makedirs(self.work)
        atexit.register(self.cleanup)
        self.xvh = os.path.join(self.work, "xvh")
        self.specdir = os.path.join(self.work, "spec")
        shutil.copytree(os.path.join(VERIF, "spec"), self.specdir)
        # evidence accumulators
        self.states = 0
        self.transitions = 0
        self.traces = 0
        self.evaluations = 0
        self.nontrivial_keys = set()
        self.samples = []
        self.models = []
        self.stages = []
        self.exhaustive = True
        self.notes = []
        self.mismatches = []  # dicts, each with at least: stage, key
        self.nstage = 0

    def cleanup(self):
        if not self.keep:
            shutil.rmtree(self.work, ignore_errors=True)

    def log(self, *a):
        print("[%s %s %5.1fs]" % (self.prop, self.tier, time.time() - self.t0), *a, flush=True)

    # ------------------------------------------------------------------
    def build(self, race=False):
        """go build the harness against the current working tree of REPO."""
        if not os.path.isfile(os.path.join(REPO, "go.mod")):
            raise ToolingError("no go.mod in %s" % REPO)
        modfile = os.path.join(self.work, "go.mod")
        with open(modfile, "w") as f:
            f.write(
                "module xvh\n\ngo 1.21\n\nrequire github.com/antchfx/xpath v0.0.0\n\n"
                "replace github.com/antchfx/xpath => %s\n" % REPO
            )
        env = dict(os.environ)
        env.update(GOENV)
        out = self.xvh + ("-race" if race else "")
        cmd = ["go", "build", "-tags", "verif", "-modfile", modfile, "-o", out]
        if race:
            cmd.append("-race")
        cmd.append("./cmd/xvh")
        p = subprocess.run(cmd, cwd=os.path.join(VERIF, "harness"), env=env, capture_output=True, text=True)
        if p.returncode != 0:
            raise ToolingError("harness build failed against %s:\n%s%s" % (REPO, p.stdout, p.stderr))
        return out

    # ------------------------------------------------------------------
    def tlc(self, module, consts, invariants=(), name=None, spec="Spec", out=True, workers=None,
            timeout=3600, extra_cfg="", env_extra=None, postcondition=None, check_deadlock=False,
            properties=(), simulate=None, constraint=None, view=None, allow_violation=False):
        """Run TLC on spec/<module>.tla with a generated cfg.  Returns a dict
        with states, generated, outfile, log."""
        self.nstage += 1
        name = name or module
        tag = "%02d-%s" % (self.nstage, name)
        cfg = os.path.join(self.specdir, tag + ".cfg")
        lines = ["SPECIFICATION %s" % spec]
        if consts:
            lines.append("CONSTANTS")
            for k, v in consts.items():
                lines.append("  %s = %s" % (k, tla_value(v)))
        if invariants:
            lines.append("INVARIANTS " + " ".join(invariants))
        if properties:
            lines.append("PROPERTIES " + " ".join(properties))
        if postcondition:
            lines.append("POSTCONDITION " + postcondition)
        if constraint:
            lines.append("CONSTRAINT " + constraint)
        if view:
            lines.append("VIEW " + view)
        lines.append("CHECK_DEADLOCK %s" % ("TRUE" if check_deadlock else "FALSE"))
        if extra_cfg:
            lines.append(extra_cfg)
        with open(cfg, "w") as f:
            f.write("\n".join(lines) + "\n")
        outfile = os.path.join(self.work, tag + ".ndjson")
        env = dict(os.environ)
        env["VERIF_OUT"] = outfile
        # deep recursive operators (movement logs, long catalogue documents) need more than the default thread stack
        env.setdefault("JAVA_TOOL_OPTIONS", "-Xss256m")
        if env_extra:
            env.update(env_extra)
        meta = os.path.join(self.work, "meta-" + tag)
        cmd = ["timeout", str(timeout), "tlc", "-workers", str(workers or NCPU), "-metadir", meta,
               "-config", cfg]
        if simulate:
            cmd += ["-simulate", simulate]
        cmd.append(os.path.join(self.specdir, module + ".tla"))
        t = time.time()
        p = subprocess.run(cmd, cwd=self.specdir, env=env, capture_output=True, text=True)
        log = p.stdout + p.stderr
        logfile = os.path.join(self.work, tag + ".tlc.log")
        with open(logfile, "w") as f:
            f.write(log)
        shutil.rmtree(meta, ignore_errors=True)
        m = re.search(r"(\d+) states generated, (\d+) distinct states found", log)
        res = {
            "module": module, "name": name, "constants": {k: (sorted(v) if isinstance(v, (set, frozenset)) else v) for k, v in consts.items()},
            "generated": int(m.group(1)) if m else 0,
            "states": int(m.group(2)) if m else 0,
            "outfile": outfile if out else None, "log": log, "logfile": logfile,
            "wall_s": round(time.time() - t, 1), "rc": p.returncode,
        }
        ok = p.returncode == 0 and "Model checking completed. No error has been found." in log
        if simulate:
            ok = p.returncode == 0
        if not ok and not allow_violation:
            tail = "\n".join(log.splitlines()[-40:])
            raise ToolingError("TLC failed on %s (rc=%d, %.0fs):\n%s" % (name, p.returncode, time.time() - t, tail))
        res["ok"] = ok
        self.states += res["states"]
        self.transitions += res["generated"]
        self.models.append({k: res[k] for k in ("module", "name", "constants", "generated", "states", "wall_s")})
        self.log("TLC %s: %d states, %d generated, %.1fs" % (name, res["states"], res["generated"], res["wall_s"]))
        return res

    # ------------------------------------------------------------------
    def replay(self, infile, kind="sel-set", render="alt", stage=None, expect_lines=None, binary=None, extra=()):
        """Flow A: replay TLC-generated behaviours on the real engine."""
        stage = stage or os.path.basename(infile)
        mm = infile + ".mismatch"
        st = infile + ".stats"
        cmd = [binary or self.xvh, "replay", "-in", infile, "-out", mm, "-stats", st, "-kind", kind,
               "-render", render, "-workers", str(NCPU)] + list(extra)
        p = subprocess.run(cmd, capture_output=True, text=True)
        if p.returncode == 3:
            # the engine did not return: a hang is a candidate violation
            self.notes.append("HANG during %s: %s" % (stage, p.stderr.strip()))
            raise ToolingError("engine call did not return during %s: %s" % (stage, p.stderr.strip()))
        if p.returncode != 0:
            raise ToolingError("replay failed (%d): %s%s" % (p.returncode, p.stdout, p.stderr))
        stats = json.load(open(st))
        if expect_lines is not None and stats["lines"] != expect_lines:
            raise ToolingError("%s: TLC reported %d cases but %d lines were read" % (stage, expect_lines, stats["lines"]))
        ms = []
        with open(mm) as f:
            for line in f:
                m = json.loads(line)
                m["stage"] = stage
                ms.append(m)
        self.traces += stats["cases"]
        self.evaluations += stats["evaluations"]
        self.samples += stats.get("samples", [])[:2]
        self.stages.append({"stage": stage, "flow": "A", "kind": kind, "lines": stats["lines"], "cases": stats["cases"],
                            "evaluations": stats["evaluations"], "nontrivial": stats["nontrivial"],
                            "distinct_nontrivial": stats["distinct_nontrivial"], "mismatches": stats["mismatches"],
                            "by_fail": stats["by_fail"]})
        self.distinct_nt = getattr(self, "distinct_nt", 0) + stats["distinct_nontrivial"]
        self.log("replay %s: %d cases, %d evaluations, %d mismatches" % (stage, stats["cases"], stats["evaluations"], stats["mismatches"]))
        if not self.keep:
            for fn in (infile, st):
                try:
                    os.remove(fn)
                except OSError:
                    pass
        return stats, ms

    def gen_and_replay(self, module, consts, invariants=("Emit", "Sanity"), kind="sel-set", render="alt", name=None,
                       noncase_states=None, **kw):
        r = self.tlc(module, consts, invariants=invariants, name=name, **kw)
        if not os.path.exists(r["outfile"]):
            open(r["outfile"], "w").close()
        stats, ms = self.replay(r["outfile"], kind=kind, render=render, stage=r["name"])
        self.mismatches += ms
        return r, stats

    # ------------------------------------------------------------------
    def drive(self, family, n, out=None, extra=(), binary=None, seed_offset=0):
        """Flow B, part 1: the harness drives the real engine and records a trace."""
        self.nstage += 1
        out = out or os.path.join(self.work, "%02d-%s.trace.ndjson" % (self.nstage, family))
        cmd = [binary or self.xvh, "drive", "-family", family, "-seed", str(self.seed + seed_offset), "-n", str(n),
               "-out", out] + list(extra)
        p = subprocess.run(cmd, capture_output=True, text=True)
        if p.returncode != 0:
            raise ToolingError("drive %s failed (%d): %s%s" % (family, p.returncode, p.stdout, p.stderr))
        self.log("drive %s: %s" % (family, p.stdout.strip().splitlines()[-1] if p.stdout.strip() else ""))
        return out

    def validate_batch(self, trace, stage, consts=None, module="XBatch", timeout=3600, drift=False, env_extra=None,
                       skip_ok=False, invariants=("Validate",)):
        """Flow B, part 2: TLC validates every recorded event against the
        specification; events the specification does not allow are returned."""
        nlines = sum(1 for _ in open(trace))
        c = {"Chunk": 64}
        c.update(consts or {})
        ee = {"VERIF_TRACE": trace}
        ee.update(env_extra or {})
        r = self.tlc(module, c, invariants=invariants, name=stage, env_extra=ee, timeout=timeout)
        # every event must have been visited: one state per event + chunk states + initial
        rejected = []
        if os.path.exists(r["outfile"]):
            for line in open(r["outfile"]):
                line = line.strip()
                if not line:
                    continue
                if line.startswith('"'):
                    line = json.loads(line)
                rejected.append(json.loads(line))
        m = re.search(r"VISITED (\d+)", r["log"])
        events = [json.loads(x) for x in open(trace)]
        ms = []
        for rj in rejected:
            ev = events[rj["l"] - 1]
            ms.append({"stage": stage, "flow": "B", "line": rj["l"], "kind": ev.get("ev"), "expr": ev.get("x", ""),
                       "ctx": ev.get("ctx", 0), "fail": rj.get("fail", "rejected"), "want": rj.get("want"),
                       "got": {"ids": ev.get("ids"), "val": ev.get("val")}, "via": ev.get("via", ev.get("ev")),
                       "case": {"d": ev.get("d"), "e": ev.get("e"), "ns": ev.get("ns"), "nav": ev.get("nav"), "vals": ev.get("vals")},
                       "event": ev})
        nskip = 0
        if skip_ok:
            # the validator marks events outside the claimed fragment: counted, never judged
            nskip = len([m for m in ms if m["fail"] == "skip"])
            ms = [m for m in ms if m["fail"] != "skip"]
            rejected = [x for x in rejected if x.get("fail") != "skip"]
            if nlines and nskip * 2 > nlines:
                raise ToolingError("%s: more than half of the events are outside the claimed fragment" % stage)
        self.traces += 1
        self.evaluations += nlines
        if drift:
            # validation against the implementation-shaped model: a rejection is model drift, never a verdict;
            # events outside the modelled fragment are counted
            skipped = [m for m in ms if m["fail"] == "skip"]
            ms = [m for m in ms if m["fail"] != "skip"]
            self.stages.append({"stage": stage, "flow": "B", "events": nlines, "skipped": len(skipped), "drift": len(ms)})
            self.log("validate %s: %d events, %d outside the modelled fragment, %d differ from the model" % (stage, nlines, len(skipped), len(ms)))
            if nlines and len(skipped) * 2 > nlines:
                raise ToolingError("%s: more than half of the events are outside the modelled fragment" % stage)
            self.drift = getattr(self, "drift", []) + ms
            return ms
        self.stages.append({"stage": stage, "flow": "B", "events": nlines, "rejected": len(rejected), "outside_fragment": nskip})
        if events:
            self.samples.append(events[min(len(events) - 1, 1)])
        self.log("validate %s: %d events, %d rejected" % (stage, nlines, len(rejected)))
        self.mismatches += ms
        return ms


    def hist(self, pool, maxcalls, nslots=2, maxiters=3, docs_per=1, stage=None, binary=None):
        """API histories: TLC enumerates every call sequence (MC_Hist), the
        harness runs each on one shared compiled expression and records the
        replies, TLC validates the recorded sessions against XApi."""
        stage = stage or ("hist-" + pool)
        r = self.tlc("MC_Hist", {"MaxCalls": maxcalls, "NSlots": nslots, "MaxIters": maxiters, "PoolName": pool},
                     invariants=("Emit", "EmitPool"), name=stage + "-gen")
        self.nstage += 1
        trace = os.path.join(self.work, "%02d-%s.sessions.ndjson" % (self.nstage, stage))
        p = subprocess.run([binary or self.xvh, "hist", "-in", r["outfile"], "-out", trace, "-seed", str(self.seed),
                            "-docs", str(docs_per)], capture_output=True, text=True)
        if p.returncode != 0:
            raise ToolingError("hist driver failed (%d): %s%s" % (p.returncode, p.stdout, p.stderr))
        self.log(p.stdout.strip())
        return self.validate_sessions(trace, stage)

    def validate_sessions(self, trace, stage, module="XApiBatch"):
        nlines = sum(1 for _ in open(trace))
        r = self.tlc(module, {"Chunk": 64}, invariants=("Validate",), name=stage + "-validate",
                     env_extra={"VERIF_TRACE": trace})
        if r["states"] < nlines:
            raise ToolingError("%s: TLC visited %d states for %d sessions" % (stage, r["states"], nlines))
        rejected = []
        if os.path.exists(r["outfile"]):
            for line in open(r["outfile"]):
                line = line.strip()
                if line:
                    rejected.append(json.loads(json.loads(line) if line.startswith('"') else line))
        ms = []
        if rejected:
            want = {rj["l"]: rj for rj in rejected}
            for i, line in enumerate(open(trace), 1):
                if i in want:
                    s = json.loads(line)
                    rj = want[i]
                    upto = s["h"][:rj["i"]] if rj["at"] == "history" else []
                    ms.append({"stage": stage, "flow": "B", "line": i, "kind": "session", "expr": s["x"], "ctx": s["cs"],
                               "fail": rj["fail"], "via": rj["at"], "want": {"fresh": s["fresh"]},
                               "got": {"rejected_event": rj["i"], "history": upto}, "case": {"e": s["e"], "m": s["m"], "ds": s["ds"], "cs": s["cs"], "skel": s["skel"]}})
        nev = 0
        sample = None
        nt = set()
        for line in open(trace):
            if sample is None:
                sample = json.loads(line)
            nev += line.count('"op"')
            # non-trivial: the fresh evaluation at the first slot is a non-empty node sequence or a scalar
            i = line.find('"fresh":[')
            if i >= 0 and not line.startswith('{"ids":[]}', i + 9):
                nt.add(hashlib.sha1((line[line.find('"x":'):i] + line[line.find('"cs":'):line.find('"e":')]).encode()).hexdigest())
        self.distinct_nt = getattr(self, "distinct_nt", 0) + len(nt)
        self.traces += nlines
        self.evaluations += nev
        if sample:
            sample.pop("ds", None)
            self.samples.append(sample)
        self.stages.append({"stage": stage, "flow": "A+B", "sessions": nlines, "events": nev, "rejected": len(rejected)})
        self.log("validate %s: %d sessions, %d events, %d rejected" % (stage, nlines, nev, len(rejected)))
        self.mismatches += ms
        if not self.keep:
            os.remove(trace)
        return ms


    def validate_lines(self, trace, stage, module, consts, describe):
        """generic batch validation: TLC visits every line of trace; rejected lines -> mismatches"""
        nlines = sum(1 for _ in open(trace))
        r = self.tlc(module, consts, invariants=("Validate",), name=stage + "-validate", env_extra={"VERIF_TRACE": trace})
        if r["states"] < nlines:
            raise ToolingError("%s: TLC visited %d states for %d lines" % (stage, r["states"], nlines))
        rejected = {}
        if os.path.exists(r["outfile"]):
            for line in open(r["outfile"]):
                line = line.strip()
                if line:
                    rj = json.loads(json.loads(line) if line.startswith('"') else line)
                    rejected[rj["l"]] = rj
        ms = []
        sample = None
        for i, line in enumerate(open(trace), 1):
            if sample is None:
                sample = json.loads(line)
            if i in rejected:
                ms.append(describe(json.loads(line), rejected[i], i, stage))
        self.traces += nlines
        if sample:
            self.samples.append(sample)
        self.stages.append({"stage": stage, "flow": "B", "runs": nlines, "rejected": len(rejected)})
        self.log("validate %s: %d recorded runs, %d rejected" % (stage, nlines, len(rejected)))
        self.mismatches += ms
        return ms

    def gen_and_parse(self, module, consts, name, invariants=("Emit",), cmd="parse"):
        """token-level Flow A: TLC emits token strings with the reference parse tree; the harness parses every
        whitespace placement with the real parser (verif hook) / Compile"""
        r = self.tlc(module, consts, invariants=invariants, name=name)
        if not os.path.exists(r["outfile"]):
            open(r["outfile"], "w").close()
        mm = r["outfile"] + ".mismatch"
        st = r["outfile"] + ".stats"
        p = subprocess.run([self.xvh, cmd, "-in", r["outfile"], "-out", mm, "-stats", st], capture_output=True, text=True)
        if p.returncode != 0:
            raise ToolingError("%s replay failed (%d): %s%s" % (cmd, p.returncode, p.stdout, p.stderr[-2000:]))
        stats = json.load(open(st))
        self.traces += stats["cases"]
        self.evaluations += stats["evaluations"]
        self.distinct_nt = getattr(self, "distinct_nt", 0) + stats["distinct_nontrivial"]
        self.samples += stats["samples"][:2]
        self.stages.append({"stage": name, "flow": "A", "cases": stats["cases"], "evaluations": stats["evaluations"],
                            "distinct_nontrivial": stats["distinct_nontrivial"], "mismatches": stats["mismatches"]})
        self.log("%s %s: %s" % (cmd, name, p.stdout.strip()))
        for line in open(mm):
            m = json.loads(line)
            m["stage"] = name
            m["flow"] = "B"
            self.mismatches.append(m)
        if not self.keep:
            os.remove(r["outfile"])
        return stats

    def apalache(self, module, args, name, timeout=900, expect_ok=True):
        """Apalache (symbolic, bounded) on spec/<module>.tla; returns True iff it reports no error."""
        self.nstage += 1
        outdir = os.path.join(self.work, "apalache-%02d" % self.nstage)
        cmd = ["timeout", str(timeout), "apalache-mc", "check", "--out-dir=" + outdir] + list(args) + [os.path.join(self.specdir, module + ".tla")]
        t = time.time()
        p = subprocess.run(cmd, cwd=self.work, capture_output=True, text=True)
        log = p.stdout + p.stderr
        okay = "EXITCODE: OK" in log
        shutil.rmtree(outdir, ignore_errors=True)
        if expect_ok and not okay:
            raise ToolingError("Apalache failed on %s:\n%s" % (name, "\n".join(log.splitlines()[-25:])))
        self.models.append({"module": module, "name": name, "tool": "apalache", "args": list(args), "ok": okay, "wall_s": round(time.time() - t, 1)})
        self.log("Apalache %s: %s, %.1fs" % (name, "no error" if okay else "error reported", time.time() - t))
        return okay

    def race(self, rounds, goroutines=8, stage="race"):
        """Real goroutines sharing compiled expressions under Go's race detector."""
        binary = self.build(race=True)
        self.nstage += 1
        out = os.path.join(self.work, "%02d-race.json" % self.nstage)
        p = subprocess.run([binary, "race", "-seed", str(self.seed), "-rounds", str(rounds), "-goroutines", str(goroutines),
                            "-out", out], capture_output=True, text=True)
        fatal = None
        if p.returncode not in (0, 66):
            # the Go runtime kills the process on unsynchronised map access ("fatal error: concurrent map ...")
            # or when a goroutine panics outside the recover of the harness: with frames of the package under
            # test on the stack that is what concurrent use did to the engine
            m = re.search(r"fatal error: (concurrent map[^\n]*)", p.stderr)
            if m and "github.com/antchfx/xpath." in p.stderr:
                fatal = m.group(1)
            else:
                raise ToolingError("race driver failed (%d): %s%s" % (p.returncode, p.stdout, p.stderr[-3000:]))
        res = json.load(open(out)) if os.path.exists(out) else {"calls": 0, "mismatches": []}
        reports = p.stderr.split("WARNING: DATA RACE")[1:]
        ms = []
        seen = set()
        if fatal:
            fr = re.findall(r"github\.com/antchfx/xpath\.(\S+)\(", p.stderr)
            ms.append({"stage": stage, "flow": "B", "kind": "race", "expr": "process killed: %s in %s" % (fatal, fr[0] if fr else "?"), "ctx": 0,
                       "fail": "fatal-concurrent-access", "via": "goroutines", "want": "no unsynchronised conflicting accesses",
                       "got": {"report": p.stderr[:1500]}, "case": {"frames": fr[:6]}})
        for rep in reports:
            frames = re.findall(r"github\.com/antchfx/xpath\.(\S+)\(\)\n\s+(\S+:\d+)", rep)
            if not frames:
                continue   # a race outside the package under test is not its defect
            key = frames[0]
            if key in seen:
                continue
            seen.add(key)
            ms.append({"stage": stage, "flow": "B", "kind": "race", "expr": "data race at %s (%s)" % key, "ctx": 0,
                       "fail": "data-race", "via": "go -race", "want": "no unsynchronised conflicting accesses",
                       "got": {"report": rep[:1500]}, "case": {"frames": frames[:6]}})
        for m in (res.get("mismatches") or []):
            ms.append({"stage": stage, "flow": "B", "kind": "race", "expr": m["expr"], "ctx": m["ctx"], "fail": "differs-from-sequential",
                       "via": m["op"], "want": m["want"], "got": {"concurrent": m["got"]}, "case": {"expr": m["expr"]}})
        self.traces += 1
        self.evaluations += res.get("calls", 0)
        self.stages.append({"stage": stage, "flow": "B", "concurrent_calls": res.get("calls", 0), "race_reports": len(reports),
                            "distinct_sites": len(seen), "result_mismatches": len(res.get("mismatches") or [])})
        self.samples.append({"race_run": {k: res.get(k) for k in ("expressions", "rounds", "goroutines", "calls")}})
        self.log("race: %s; %d race reports" % (p.stdout.strip(), len(reports)))
        self.mismatches += ms
        return ms


# ----------------------------------------------------------------------
def load_findings():
    path = os.path.join(VERIF, "known_findings.jsonl")
    out = []
    if os.path.exists(path):
        for line in open(path):
            line = line.strip()
            if line and not line.startswith("#"):
                out.append(json.loads(line))
    return out


def mismatch_key(m):
    return hashlib.sha1(json.dumps([m.get("expr"), m.get("ctx"), m.get("via"), m.get("fail"), m.get("case")],
                                   sort_keys=True).encode()).hexdigest()[:12]


def finish(run, in_fragment, findings_match):
    """Common tail: confirm, attribute to known findings, evidence, verdict."""
    prop = run.prop
    findings = [f for f in load_findings()
                if (f["property"] == prop or prop in f.get("also", [])) and f.get("status") == "known"]
    observed = {}
    unexplained = []
    outside = 0
    for m in run.mismatches:
        if not in_fragment(m):
            outside += 1
            continue
        f = findings_match(m, findings)
        if f is not None:
            observed.setdefault(f["id"], [f, 0])[1] += 1
        else:
            unexplained.append(m)
    # confirm unexplained Flow-A mismatches in a fresh process
    confirmed = []
    flaky = 0
    todo = [m for m in unexplained if m.get("flow") != "B"]
    confirmed += [m for m in unexplained if m.get("flow") == "B"]  # re-confirmed by replay of the recorded case below
    if todo:
        seen = {}
        for m in todo[:3000]:
            seen.setdefault(json.dumps(m["case"], sort_keys=True), []).append(m)
        cf = os.path.join(run.work, "confirm.ndjson")
        by_kind = {}
        for cs, ms in seen.items():
            by_kind.setdefault(ms[0]["kind"], []).append(cs)
        still = set()
        for kind, cases in by_kind.items():
            with open(cf, "w") as f:
                for cs in cases:
                    f.write(cs + "\n")
            p = subprocess.run([run.xvh, "replay", "-in", cf, "-out", cf + ".mm", "-stats", cf + ".st", "-kind", kind,
                                "-render", "both", "-workers", "4"], capture_output=True, text=True)
            if p.returncode != 0:
                raise ToolingError("confirmation replay failed: " + p.stderr)
            for line in open(cf + ".mm"):
                x = json.loads(line)
                still.add((x["expr"], x["ctx"], x["via"], x["fail"]))
        for m in todo[:3000]:
            if (m["expr"], m["ctx"], m["via"], m["fail"]) in still:
                confirmed.append(m)
            else:
                flaky += 1
    # verdict
    os.makedirs(os.path.join(VERIF, "replays"), exist_ok=True)
    violations = []
    shapes = {}
    for m in confirmed:
        shapes.setdefault((m.get("stage"), m.get("fail"), m.get("expr")), m)
    for (stage, fail, expr), m in list(shapes.items())[:25]:
        key = mismatch_key(m)
        path = os.path.join(VERIF, "replays", "%s-%s.json" % (prop, key))
        with open(path, "w") as f:
            json.dump({"property": prop, "mismatch": m}, f, indent=1)
        violations.append(path)
    if getattr(run, "drift", None):
        print("MODEL-DRIFT (not a verdict): the engine's cursor movements differ from the implementation-shaped model XQueryVM in "
              "%d cases, e.g. %s ctx=%s (%s); update spec/XQueryVM.tla if the change is intended" %
              (len(run.drift), run.drift[0].get("expr"), run.drift[0].get("ctx"), run.drift[0].get("fail")))
    for fid, (f, n) in sorted(observed.items()):
        print("KNOWN-FINDING: property=%s %s [%s, %d occurrences]" % (prop, f["what"], fid, n))
    for path in violations:
        m = json.load(open(path))["mismatch"]
        print("VIOLATION property=%s replay=%s" % (prop, path))
        print("  # %s ctx=%s via=%s fail=%s want=%s got=%s" % (m.get("expr"), m.get("ctx"), m.get("via"), m.get("fail"),
                                                              json.dumps(m.get("want")), json.dumps(m.get("got"))))
    write_evidence(run, len(confirmed), observed, outside, flaky)
    if flaky and not violations:
        print("check: %d disagreements did not reproduce in a fresh process (tooling problem, not a verdict)" % flaky)
        return 2
    return 1 if violations else 0


def write_evidence(run, nviol, observed, outside, flaky, extra=None):
    cov = {
        "states": run.states,
        "transitions": run.transitions,
        "traces_validated_against_impl": run.traces,
        "samples": run.samples[:6] or ["(none)"],
        "evaluations": run.evaluations,
        "distinct_nontrivial": getattr(run, "distinct_nt", 0),
        "rule": getattr(run, "rule", "cases are the states of the bounded TLC models listed under models (exhaustive BFS) plus seeded "
                        "Flow-B events; a case is non-trivial when the reply required by the specification is non-empty / "
                        "non-default; distinct = distinct (expression text, document) pairs among those, counted by the replayer"),
        "exhaustive": run.exhaustive,
        "models": run.models,
        "stages": run.stages,
        "known_findings_observed": {k: v[1] for k, v in observed.items()},
        "outside_fragment_observations": outside,
        "unreproduced": flaky,
        "notes": run.notes,
        "model_drift": {"count": len(getattr(run, "drift", [])),
                        "samples": [{k: m.get(k) for k in ("expr", "ctx", "fail", "want", "got")} for m in getattr(run, "drift", [])[:5]]},
    }
    if extra:
        cov.update(extra)
    ev = {
        "property_id": run.prop,
        "tier": run.tier,
        "seed": run.seed,
        "level": "model_checking",
        "coverage": cov,
        "assumptions": getattr(run, "assumptions", [
            "TLC evaluates the TLA+ specification correctly; the specification (spec/*.tla) is a faithful reading of XPath 1.0",
            "the harness navigator implements XDoc's cursor model (validated by the navigator self-check trace)",
            "bounded exhaustiveness: documents, expressions and histories up to the constants listed under models",
        ]),
        "wall_s": round(time.time() - run.t0, 1),
        "violations": nviol,
    }
    evdir = os.environ.get("VERIF_EVIDENCE_DIR") or os.path.join(VERIF, "evidence")
    os.makedirs(evdir, exist_ok=True)
    with open(os.path.join(evdir, run.prop + ".json"), "w") as f:
        json.dump(ev, f, indent=1)


def main(argv):
    import props
    if len(argv) < 2:
        print(__doc__ or "usage: check <ID> <quick|thorough>")
        return 2
    pid, tier = argv[0], argv[1]
    keep = "--keep" in argv
    if pid not in props.PROPS:
        print("check: unknown property %s" % pid)
        return 2
    run = Run(pid, tier, keep=keep)
    try:
        if "--replay" in argv:
            path = argv[argv.index("--replay") + 1]
            return props.replay_one(run, path)
        run.build()
        spec = props.PROPS[pid]
        spec["run"](run)
        return finish(run, spec.get("in_fragment", lambda m: True), spec.get("match", props.match_finding))
    except ToolingError as e:
        print("check: TOOLING ERROR (exit 2, not a verdict): %s" % e)
        return 2
