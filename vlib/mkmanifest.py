#!/usr/bin/env python3
"""Regenerates /verif/MANIFEST.json from the table below (single source)."""
import json
import os
import sys

sys.path.insert(0, os.path.dirname(os.path.abspath(__file__)))
VERIF = os.path.dirname(os.path.dirname(os.path.abspath(__file__)))

ALL = ["C%02d" % i for i in range(1, 18)]

# property -> (technique, level text, level note, design ref)
CLAIMS = {
    "C01": (
        "TLA+ denotation (XSem.tla) explored exhaustively by TLC over all small documents x all 1-3 step paths; "
        "generated behaviours replayed on the real engine; seeded engine traces validated by TLC (XBatch.tla); "
        "implementation-shaped model of the iterator pipeline (XQueryVM.tla) model-checked against the denotation and "
        "compared with the engine's recorded cursor movements",
        "Bounded-exhaustive model checking of the XPath 1.0 path denotation with two-way conformance: every (document, "
        "path, context) up to the bounds is replayed on the engine and compared with the set the specification requires; "
        "larger random cases are recorded from the engine and validated by TLC.",
        "Trusted: TLC, the transcription of XPath 1.0 into XDoc/XSem.tla (guarded by TLC-checked sanity theorems), the "
        "harness navigator (validated against XDoc's cursor model), the AST printer. Bounds: see evidence.models.",
        "DESIGN.md 4/C01",
    ),
}

CLAIMS["C02"] = (
    "TLA+ denotation with predicates (XSem.tla) explored by TLC over documents x predicate pools (XPools.tla: host axis x "
    "predicate axis x atom form, nesting depth 2, and/or/not, two predicates, parenthesised paths with one or several "
    "predicates, and/or over merge-rewritten operands); replay on the engine; seeded deeper cases recorded from the "
    "engine and validated by TLC (XBatch.tla, with taint analysis for values outside the exact number model); "
    "implementation-shaped model of the predicate pipeline (XQueryVM2.tla: builder flags and rewrites, Evaluate reset protocol, "
    "filter/merge/group/not/and/or/comparison/function-call queries) model-checked against the denotation (VM2Refines), its "
    "named deviations refuted by TLC, the engine's delivery sequences and cursor movements compared with the model's "
    "(Flow A) and recorded engine traces validated against the model by TLC (XVMBatch.tla, Flow B)",
    "Bounded-exhaustive model checking of predicate semantics: every candidate sequence arising in all small documents and "
    "the catalogue (several candidates sharing ancestors, siblings, followers) is replayed and compared with the denotation, "
    "which exposes state leaking from one candidate to the next.",
    CLAIMS["C01"][2], "DESIGN.md 4/C02")
CLAIMS["C03"] = (
    "TLA+ proximity-position semantics (XSem.tla KeepFrom/PredTrue) explored by TLC over all element documents up to 5-6 "
    "nodes x positional predicate pools (XPools.tla PoolC03*: 8 host positions, continued by steps on every axis, nested "
    "inside predicates); replay on the engine; position counters, position()/last() sibling scans and the merge rewrite in "
    "the implementation-shaped model XQueryVM2.tla (VM2Refines by TLC, deviations refuted, engine movements compared, "
    "recorded traces validated by TLC with XVMBatch.tla)",
    "Bounded-exhaustive model checking of positional predicates on child steps in 8 host positions, followed by boolean "
    "predicates, and of (path)[n]; parents with different fan-out are enumerated exhaustively.",
    CLAIMS["C01"][2], "DESIGN.md 4/C03")

CLAIMS["C07"] = (
    "TLA+ comparison matrix and boolean operators (XSem.tla Compare/ToBool, XValue.tla exact IEEE model) explored by TLC "
    "over the full operator x operand-type x operand-value matrix on value documents; replay on the engine via Evaluate "
    "and as predicates via Select; seeded deeper comparisons recorded from the engine and validated by TLC; exact "
    "unbounded binary64 model (XFloat.tla, arbitrary-precision limbs) for comparisons over non-dyadic and > 2^53 values "
    "(MC_Float families cmp, pred), engine replies compared bit for bit; seeded random numerals and trees recorded from the "
    "engine and validated by TLC against the same model (XFBatch.tla)",
    "Exhaustive model checking of the claimed type pairs: 6 operators x number/string/node-set operands incl. NaN, "
    "infinity, non-numeric, empty, whitespace-padded and duplicate node values; short-circuit observed through an operand "
    "that raises a deliberate complaint if evaluated.",
    CLAIMS["C01"][2], "DESIGN.md 4/C07")
CLAIMS["C08"] = (
    "TLA+ exact model of IEEE-754 arithmetic on signed dyadic rationals with NaN/Infinity/signed zero (XValue.tla) "
    "explored by TLC over all arithmetic trees of depth 1-2 (thorough: larger leaf sets), depth 3-4 by seeded engine "
    "traces validated by TLC; bit-exact comparison of the engine's float64 with the specified value; XFloat.tla: "
    "exact unbounded binary64 (correctly rounded decimal conversion, + - * div, exact mod, floor, ceiling, shortest "
    "round-trip string) on arbitrary-precision naturals, MC_Float families arith1, arith2, fn, str, extreme (overflow, "
    "subnormals); recorded engine replies for seeded random numerals of up to 40 digits validated by TLC (XFBatch.tla)",
    "Bounded-exhaustive model checking of arithmetic, number(), count(), sum(), floor(), ceiling(), unary minus and "
    "string(number); values outside the small dyadic model (1 div 3, 0.1 + 0.2, 2^63) are decided by the XFloat families.",
    CLAIMS["C01"][2] + " XFloat.tla is trusted to state IEEE 754 round-to-nearest-even (its sanity invariant FloatSanity "
    "pins well-known values).", "DESIGN.md 4/C08, 12.5")
CLAIMS["C09"] = (
    "TLA+ string library (XValue.tla) explored by TLC over the full argument product per function (substring: strings x "
    "15 starts x 11 lengths incl. negative/fractional/beyond the end) and depth-2 compositions; replay on the engine; "
    "depth 3-4 compositions by seeded engine traces validated by TLC; substring() positions that are halves, inexact "
    "sums, NaN, infinities or beyond 2^63 through the exact binary64 model XFloat.tla (MC_Float family substr; recorded "
    "traces validated by XFBatch.tla)",
    "Exhaustive model checking of every string function over an ASCII pool incl. empty / whitespace strings and flat "
    "node-set arguments (first node, empty set).",
    CLAIMS["C01"][2], "DESIGN.md 4/C09")

CLAIMS["C04"] = (
    "TLA+ API session machine (XApi.tla: purity of Select/Evaluate, iterator protocol) - TLC enumerates every call "
    "history up to L calls (MC_Hist.tla); each is executed on ONE shared compiled expression; the recorded sessions are "
    "validated by TLC against XApi (XApiBatch.tla), fresh evaluations against the denotation",
    "Exhaustive exploration of call histories (Select/Evaluate/MoveNext/Current, interleaved iterators abandoned after "
    "every prefix, contexts in the same and in other documents) for a pool of the engine's stateful constructs, incl. "
    "operands evaluated in place; every reply must equal the reply of a freshly compiled expression.",
    CLAIMS["C01"][2], "DESIGN.md 4/C04")
CLAIMS["C12"] = (
    "TLA+ API session machine (XApi.tla) with mode seq: flat paths must deliver exactly the denotation in document "
    "order; TLC-enumerated histories with extra MoveNext calls, Current, Evaluate-vs-Select, count(e), reverse(e) are "
    "executed and the recorded sessions validated by TLC; the abstract API machine explored by TLC (MC_Api.tla); in the "
    "implementation-shaped model XQueryVM.tla TLC proves flat paths are delivered in strictly increasing document order "
    "(VMOrdered) and the engine must deliver exactly the model's sequence",
    "Exhaustive over all flat paths of 1-2 (thorough 3) child/attribute/self steps, //name, descendant::name, with the "
    "C02/C03 predicates, on the catalogue and value documents from seeded contexts; protocol relations for every "
    "node-set expression of the C04 pool.",
    CLAIMS["C01"][2], "DESIGN.md 4/C12")

CLAIMS["C11"] = (
    "TLA+ union denotation (XSem.tla union/seqstep) explored by TLC over all documents up to 4-5 nodes whose element "
    "names contain '-' and digits (a, a-1, a-1-1, b1), with repeated values, attributes, text, comments x all operand "
    "pairs of a path pool (incl. operands that deliver a node several times); replay requires each node exactly once; "
    "seeded nested unions on larger documents recorded from the engine and validated by TLC; the node identity key of "
    "getHashCode specified in XHash.tla (KeyInjective by TLC on all documents up to 5-6 nodes incl. prefixed attributes; "
    "the engine's hash must be FNV-64a of the specified key and collision-free, hook VerifHashCode); the union query in the "
    "implementation-shaped model XQueryVM2 (VM2Once, VM2Refines) with the engine's delivery sequence and cursor movements compared",
    "Bounded-exhaustive model checking of A|B, nested unions and p/(a, b): overlapping, disjoint and equal operands; "
    "identity confusion between distinct nodes is searched by enumerating names and shapes systematically and excluded "
    "at design level by the injectivity of the identity key.",
    CLAIMS["C01"][2], "DESIGN.md 4/C11")
CLAIMS["C13"] = (
    "TLA+ identities checked by TLC as theorems of the denotation (MC_Compose.tla Sanity) and the composed / wrapped "
    "expressions replayed on the engine from every start node",
    "Bounded-exhaustive: every node n of every document up to 4-5 nodes and the catalogue as start node; /addr(n)/p vs p "
    "at n for all 1-2 step relative paths over 12 axes (with predicates); wrappers P[true()], (P), P|P, not(not(P)).",
    CLAIMS["C01"][2], "DESIGN.md 4/C13")

CLAIMS["C05"] = (
    "TLA+ ownership/sharing model (XShare.tla) checked by TLC for all interleavings of 3 goroutines at memory-access "
    "granularity; TLC-enumerated API-level interleavings of up to 3 clients replayed on ONE shared Expr and validated by "
    "TLC (XApi.tla); real goroutines under Go's race detector with results compared to sequential runs",
    "Model checking of the sharing discipline (NoConflict, lock discipline) plus conformance: cooperative replay of every "
    "interleaving of calls exposes logical sharing between clones deterministically; the happens-before race detector "
    "decides memory-level races during concurrent Select/Evaluate/Compile/regex runs.",
    CLAIMS["C01"][2] + " Memory-level races are decided by Go's race detector (trusted); sub-call interleavings are whatever "
    "the scheduler produces (DESIGN.md 8).", "DESIGN.md 4/C05")

CLAIMS["C16"] = (
    "TLA+ cache specification: AbstractCache (policy-free) and the lock-step model of loadingCache.get (XCache.tla) checked "
    "by TLC for all interleavings incl. refinement; inductive invariant of the sequential abstraction discharged by "
    "Apalache (XCacheInd.tla); TLC-enumerated key sequences run on a real cache through verif hooks "
    "and matches(), goroutine runs under -race with logical-clock stamped calls, all validated by TLC (XCacheBatch.tla); "
    "replace() template rewriting specified in XRegex.tla with Go's regexp as the environment oracle",
    "Model checking of the cache design (mutual exclusion, capacity bound, exactness, failed loads not remembered, "
    "refinement of the abstract cache) plus conformance of real sequential and concurrent histories; regex functions "
    "checked over a generated (subject, pattern, template) grammar incl. invalid patterns.",
    CLAIMS["C01"][2] + " Regular-expression semantics is Go's regexp (the reference the property names).",
    "DESIGN.md 4/C16")

CLAIMS["C14"] = (
    "TLA+ name-test rule (XSem.tla NameMatch: no map / map+URI navigator / map+plain navigator / unbound prefix) explored "
    "by TLC over all documents up to 3-4 nodes with 0..3 namespaces under varying prefixes x 5 namespace maps x 2 "
    "navigator flavours x prefixed/unprefixed tests on all 12 axes and the name functions; replay on the engine; "
    "seeded configurations on documents up to 16 nodes recorded from the engine and validated by TLC",
    "Bounded-exhaustive model checking over configurations; unbound prefixes must make CompileWithNS fail.",
    CLAIMS["C01"][2], "DESIGN.md 4/C14")
CLAIMS["C15"] = (
    "TLC enumerates the typed matrix defined in the specification (XPools.tla: every function x every argument tuple of "
    "length 0..3 over one representative per static type, every operator x ordered type pair, variables, every axis name, "
    "each as top-level expression, predicate and function argument); the harness classifies every outcome of "
    "Compile/Select/Evaluate on the real engine",
    "Exhaustive enumeration of the operand-type / arity matrix; the oracle is a classification: a runtime.Error, a panic "
    "value that is not an error created by the package, a hang, an endless iterator or an undocumented result type is a "
    "violation; deliberate complaints are fine.",
    CLAIMS["C01"][2] + " The specification supplies the matrix, not expected values.", "DESIGN.md 4/C15")

CLAIMS["C10"] = (
    "TLA+ reference parser (XSyntax.tla: tokens, lexical adjacency rule NeedsSep, recursive-descent RefParse, engine-shaped "
    "rendering EForm) - TLC enumerates every operator chain up to 2-5 operators with keyword-named operands, unary minus, "
    "abbreviations (MC_Syntax.tla), and the repository's own test expressions (MC_Corpus.tla); each token string is rendered with 5 whitespace placements and parsed by the real "
    "parser through the verif hook VerifParse; the tree must equal the reference tree; hook-independently the VALUE of "
    "constant chains must be the value the reference grouping denotes",
    "Exhaustive over all ordered operator pairs (16 operators) and triples; whitespace optional exactly where the "
    "specification's adjacency rule says; abbreviations parse to their expansions.",
    CLAIMS["C01"][2] + " The hook renders the parse tree read-only.", "DESIGN.md 4/C10")

CLAIMS["C06"] = (
    "TLA+ pushdown abstraction of the parser/builder recursion (XStack.tla) over the call graph extracted from the working "
    "tree: TLC checks that every recursive cycle passes a depth guard and names unguarded cycles, which are pumped on the "
    "real code in subprocesses at depths up to 10^6 (10^7 thorough); TLC enumerates every character-class string and "
    "token string up to length 3-4 with the reference lexer/parser verdict (MC_Lexical.tla, XSyntax.tla); the harness "
    "applies the totality oracle to each, plus seeded random token strings and byte mutations of valid expressions",
    "Model checking of the recursion skeleton (structural argument for unbounded nesting) plus bounded-exhaustive and "
    "seeded conformance for totality: no panic escapes, exactly one of (expression, error) from Compile and CompileWithNS "
    "(bound and empty map), MustCompile non-nil, no hang.",
    CLAIMS["C01"][2] + " The skeleton extraction (go/ast) recognises guards syntactically (x.d > N / x.parseDepth > N).",
    "DESIGN.md 4/C06")
CLAIMS["C17"] = (
    "TLA+ reference lexer and parser (XSyntax.tla Lex/RefParse, function signature table) - MC_Damage.tla applies every "
    "damage operator of the listed classes at every applicable position of a seed set of valid expressions (hand-written "
    "and compositional: every function, axis, operator) and emits a damaged string only if the reference parser rejects "
    "it; Compile must return an error for every whitespace placement",
    "Exhaustive over (seed, damage operator, position); the specification, not a heuristic, decides which damaged strings "
    "are ill-formed.",
    CLAIMS["C01"][2], "DESIGN.md 4/C17")

NOT_YET = "check not built yet in this round (see DESIGN.md section 9 for the construction order)"


def main():
    checks = []
    for p in ALL:
        if p not in CLAIMS:
            continue
        tech, text, note, ref = CLAIMS[p]
        checks.append({
            "property_id": p,
            "quick_cmd": "./check %s quick" % p,
            "thorough_cmd": "./check %s thorough" % p,
            "evidence_file": "evidence/%s.json" % p,
            "replay_cmd_template": "./check %s quick --replay {path}" % p,
            "engine": "tlc+xvh",
            "level_claimed": {"category": "model_checking", "text": text, "design_ref": ref},
            "level_note": note,
            "technique": tech,
        })
    man = {
        "version": 1,
        "setup_cmd": "./setup.sh",
        "hooks": {
            "guard": "verif",
            "enable": "go build -tags verif (the check builds the harness with -tags verif against /repo's working tree)",
            "baseline_off_cmd": "cd /repo && go test -vet=off -count=1 ./...",
            "source_commits": json.load(open(os.path.join(VERIF, "vlib", "hook_commits.json"))) if os.path.exists(os.path.join(VERIF, "vlib", "hook_commits.json")) else [],
            "add_only": True,
        },
        "engines": [
            {"name": "tlc+xvh", "path": "check", "serves_properties": sorted(CLAIMS),
             "kind_free_text": "explicit TLA+ specification (spec/*.tla) model-checked by TLC; Go harness (harness/) replays "
                               "TLC-generated behaviours on the real engine and records engine traces that TLC validates"},
        ],
        "checks": checks,
        "notes": "All checks: ./check <ID> <quick|thorough>; exit 0 held / 1 VIOLATION / 2 tooling error. "
                 "known_findings.jsonl lists recorded and fixed defects.",
        "not_applicable": [{"property_id": p, "reason": NOT_YET} for p in ALL if p not in CLAIMS],
    }
    with open(os.path.join(VERIF, "MANIFEST.json"), "w") as f:
        json.dump(man, f, indent=1)
        f.write("\n")


if __name__ == "__main__":
    main()
