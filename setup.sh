#!/bin/sh
# Offline setup: nothing is downloaded.  Verifies the tools the checks need
# and warms the Go build cache for the harness (the checks rebuild it against
# /repo's working tree on every run anyway).
set -e
cd "$(dirname "$0")"
export GOFLAGS=-mod=mod GOPROXY=off GOSUMDB=off GOTOOLCHAIN=local
command -v tlc >/dev/null
command -v go >/dev/null
command -v python3 >/dev/null
mkdir -p work evidence replays
(cd harness && go build -tags verif -o ../work/xvh.setup ./cmd/xvh && rm -f ../work/xvh.setup)
echo "setup ok"
