package main

import (
	"bytes"
	"encoding/json"
	"fmt"
	"math"
	"os"
	"strconv"
	"sync/atomic"

	"github.com/antchfx/xpath"
	"xvh/vdoc"
)

// Kind "f64" (MC_Float.tla / XFloat.tla): the specification gives the expression TEXT, the string-values of the
// children v1..vn of the root element r, and the required reply with the exact bit pattern of a number
// (sign, mantissa as base-2^15 limbs, binary exponent).  The engine's float64 must have the same bits.
type f64Case struct {
	X    string   `json:"x"`
	Vals []string `json:"vals"`
	W    struct {
		T   string          `json:"t"`
		V   json.RawMessage `json:"v"`
		C   string          `json:"c"`
		Neg bool            `json:"neg"`
		M   []uint64        `json:"m"`
		E   int             `json:"e"`
	} `json:"w"`
}

func f64Doc(vals []string) (*vdoc.Doc, []int) {
	ids := []int{}
	rows := [][]interface{}{{"root", "", 0, "", "", ""}, {"elem", "r", 1, "", "", ""}}
	for i, v := range vals {
		rows = append(rows, []interface{}{"elem", "v" + strconv.Itoa(i+1), 2, "", "", ""})
		ids = append(ids, len(rows))
		if v != "" {
			rows = append(rows, []interface{}{"text", "", len(rows), v, "", ""})
		}
	}
	b, _ := json.Marshal(rows)
	d := &vdoc.Doc{}
	if err := json.Unmarshal(b, d); err != nil {
		fmt.Fprintf(os.Stderr, "xvh: f64 document: %v\n", err)
		os.Exit(2)
	}
	return d, ids
}

// f64Placeholders: the characters put in place of '~' (the specification's "a character outside the Number grammar"):
// everything Unicode calls white space but XPath does not, and a few look-alikes.
var f64Placeholders = []string{"~", "\u00a0", "\u2003", "\u3000", "\u0085", "\v", "\f", "\u202f", "\u2028", "\u0661", "\uff11"}

func (w *worker) runF64(line int, raw []byte) {
	if bytes.IndexByte(raw, '~') >= 0 {
		for _, ph := range f64Placeholders {
			q, _ := json.Marshal(ph)
			w.runF64One(line, bytes.ReplaceAll(raw, []byte("~"), q[1:len(q)-1]))
		}
		return
	}
	w.runF64One(line, raw)
}

func (w *worker) runF64One(line int, raw []byte) {
	var c f64Case
	if err := json.Unmarshal(raw, &c); err != nil {
		fmt.Fprintf(os.Stderr, "xvh: line %d: bad f64 case: %v\n", line, err)
		os.Exit(2)
	}
	d, vids := f64Doc(c.Vals)
	wj, _ := json.Marshal(c.W)
	var evals int64
	// from the root and from the element r (absolute paths: the context must not matter); Evaluate twice on the
	// same compiled expression
	for _, ctx := range []int{1, 2} {
		ex, err, co := compile(c.X, nil)
		if err != nil || ex == nil || co.Panic != "" {
			if err != nil {
				co.Msg = err.Error()
			}
			w.report(Mismatch{Line: line, Kind: "f64", Expr: c.X, Render: "-", Ctx: ctx, Fail: "compile", Want: wj, Got: co, Via: "Compile", Case: raw})
			break
		}
		for rep := 0; rep < 2; rep++ {
			var o Outcome
			var v interface{}
			func() {
				defer guard(&o)
				v = ex.Evaluate(d.At(ctx))
			}()
			evals++
			fail := ""
			switch {
			case o.Panic != "":
				fail = "panic:" + o.Panic
			case c.W.T == "ns":
				// a node-set: the children v_i of r whose index the specification lists
				var idx []int
				json.Unmarshal(c.W.V, &idx)
				want := map[int]bool{}
				for _, i := range idx {
					want[vids[i-1]] = true
				}
				it, ok := v.(*xpath.NodeIterator)
				if !ok {
					o.Msg = fmt.Sprintf("%T", v)
					fail = "type"
					break
				}
				got, _ := drain(it, runawayLimit)
				o.IDs = got
				seen := map[int]bool{}
				for _, g := range got {
					if !want[g] {
						fail = "extra"
					}
					seen[g] = true
				}
				for g := range want {
					if !seen[g] && fail == "" {
						fail = "missing"
					}
				}
			case c.W.T == "b":
				want := string(c.W.V) == "true"
				g, ok := v.(bool)
				o.Msg = fmt.Sprint(v)
				if !ok {
					fail = "type"
				} else if g != want {
					fail = "value"
				}
			case c.W.T == "s":
				var want string
				json.Unmarshal(c.W.V, &want)
				g, ok := v.(string)
				o.Msg = fmt.Sprint(v)
				if !ok {
					fail = "type"
				} else if g != want {
					fail = "value"
				}
			default:
				g, ok := v.(float64)
				if !ok {
					o.Msg = fmt.Sprintf("%T %v", v, v)
					fail = "type"
					break
				}
				o.Msg = fmt.Sprintf("%v bits=%#016x", g, math.Float64bits(g))
				switch c.W.C {
				case "nan":
					if !math.IsNaN(g) {
						fail = "value"
					}
				case "inf":
					if !math.IsInf(g, 0) || (g < 0) != c.W.Neg {
						fail = "value"
					}
				default:
					var m uint64
					for i := len(c.W.M) - 1; i >= 0; i-- {
						m = m<<15 | c.W.M[i]
					}
					want := math.Ldexp(float64(m), c.W.E) // exact: m < 2^53, the exponent is in range
					if c.W.Neg {
						want = math.Copysign(want, -1)
					}
					if math.Float64bits(want) != math.Float64bits(g) {
						fail = "value"
						o.Msg += fmt.Sprintf(" want %v bits=%#016x", want, math.Float64bits(want))
					}
				}
			}
			if fail != "" {
				w.report(Mismatch{Line: line, Kind: "f64", Expr: c.X, Render: "-", Ctx: ctx, Fail: fail, Want: wj, Got: o, Via: "Evaluate", Case: raw})
				break
			}
		}
	}
	atomic.AddInt64(&w.st.Cases, 1)
	atomic.AddInt64(&w.st.Evaluations, evals)
	atomic.AddInt64(&w.st.Nontrivial, evals)
}
