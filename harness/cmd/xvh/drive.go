package main

import (
	"bufio"
	"encoding/json"
	"flag"
	"fmt"
	"os"

	"xvh/gen"
	"xvh/vdoc"
	"xvh/xast"
)

// Event is one recorded engine call (Flow B).
type Event struct {
	Ev    string            `json:"ev"`          // Select | Evaluate
	M     string            `json:"m,omitempty"` // set | seq | once
	D     *vdoc.Doc         `json:"d"`
	E     *xast.Expr        `json:"e"`
	X     string            `json:"x"` // the text given to Compile
	Ns    map[string]string `json:"ns,omitempty"`
	Nav   string            `json:"nav,omitempty"`
	Ctx   int               `json:"ctx"`
	IDs   []int             `json:"ids,omitempty"`
	Val   *Value            `json:"val,omitempty"`
	Panic string            `json:"panic,omitempty"`
	Msg   string            `json:"msg,omitempty"`
	Ops   []int             `json:"ops,omitempty"` // family vm: the cursor movements (code, from, to)*
}

type recorder struct {
	w *bufio.Writer
	n int
}

func (r *recorder) emit(ev *Event) {
	if ev.IDs == nil && ev.Val == nil && ev.Panic == "" {
		ev.IDs = []int{}
	}
	b, err := json.Marshal(ev)
	if err != nil {
		panic(err)
	}
	r.w.Write(b)
	r.w.WriteByte('\n')
	r.n++
}

// MarshalJSON keeps "ids":[] (an empty result is a result).
func (ev *Event) MarshalJSON() ([]byte, error) {
	m := map[string]interface{}{"ev": ev.Ev, "d": ev.D, "e": ev.E, "x": ev.X, "ctx": ev.Ctx}
	if ev.M != "" {
		m["m"] = ev.M
	}
	if ev.Ns != nil {
		m["ns"] = ev.Ns
	}
	if ev.Nav != "" {
		m["nav"] = ev.Nav
	}
	switch {
	case ev.Panic != "":
		m["panic"] = ev.Panic
		m["msg"] = ev.Msg
	case ev.Val != nil:
		m["val"] = ev.Val
	default:
		if ev.IDs == nil {
			ev.IDs = []int{}
		}
		m["ids"] = ev.IDs
	}
	if ev.Ev == "SelectRec" {
		if ev.Ops == nil {
			ev.Ops = []int{}
		}
		m["ops"] = ev.Ops
	}
	return json.Marshal(m)
}

// record runs Select (and Evaluate) of text on d from ctx and records what
// the engine did.
func (r *recorder) record(d *vdoc.Doc, e *xast.Expr, o xast.Opts, ctx int, mode string, ns map[string]string, plain bool, evaluate bool) {
	text := xast.Print(e, o)
	ex, err, co := compile(text, ns)
	nav := ""
	if plain {
		nav = "plain"
	}
	if err != nil || ex == nil || co.Panic != "" {
		msg := co.Msg
		if err != nil {
			msg = err.Error()
		}
		r.emit(&Event{Ev: "Compile", M: mode, D: d, E: e, X: text, Ns: ns, Nav: nav, Ctx: ctx, Panic: "compile", Msg: msg})
		return
	}
	var out Outcome
	name := "Select"
	if evaluate {
		name = "Evaluate"
		out = doEvaluate(ex, d, ctx, plain)
	} else {
		out = doSelect(ex, d, ctx, plain)
	}
	ev := &Event{Ev: name, M: mode, D: d, E: e, X: text, Ns: ns, Nav: nav, Ctx: ctx}
	switch {
	case out.Panic != "":
		ev.Panic, ev.Msg = out.Panic, out.Msg
	case out.Runaway:
		// not a verdict: too many (duplicate) nodes to compare; skipped
		return
	case out.Typ != "":
		ev.Panic, ev.Msg = "type", out.Typ
	case out.Val != nil:
		ev.Val = out.Val
	default:
		ev.IDs = out.IDs
	}
	r.emit(ev)
}

// recordVM runs Select with a recording navigator and logs the delivered sequence and every cursor movement.
func (r *recorder) recordVM(d *vdoc.Doc, e *xast.Expr, o xast.Opts, ctx int) {
	text := xast.Print(e, o)
	ex, err, co := compile(text, nil)
	if err != nil || ex == nil || co.Panic != "" {
		return // the grammar only produces valid expressions; Compile failures are judged by the preds family
	}
	var log []vdoc.Move
	var got Outcome
	func() {
		defer guard(&got)
		it := ex.Select(d.AtRec(ctx, &log))
		got.IDs, got.Runaway = drain(it, runawayLimit)
	}()
	if got.Panic != "" || got.Runaway || len(log) > 1500 {
		return
	}
	ev := &Event{Ev: "SelectRec", D: d, E: e, X: text, Ctx: ctx, IDs: got.IDs, Ops: make([]int, 0, 3*len(log))}
	for _, m := range log {
		ev.Ops = append(ev.Ops, vmOpCode[m.Op], m.From, m.To)
	}
	r.emit(ev)
}

func cmdDrive(args []string) {
	fs := flag.NewFlagSet("drive", flag.ExitOnError)
	family := fs.String("family", "paths", "driver family")
	seed := fs.Int64("seed", 1, "seed")
	n := fs.Int("n", 1000, "number of (document, expression) pairs")
	out := fs.String("out", "", "trace file")
	maxNodes := fs.Int("nodes", 25, "max document size")
	maxSteps := fs.Int("steps", 5, "max path length")
	fs.Parse(args)
	f, err := os.Create(*out)
	if err != nil {
		fmt.Fprintln(os.Stderr, "xvh:", err)
		os.Exit(2)
	}
	defer f.Close()
	r := &recorder{w: bufio.NewWriter(f)}
	defer r.w.Flush()
	g := gen.New(*seed)
	if *family == "f64" {
		ne := driveF64(g.R, *n, r.w)
		r.w.Flush()
		fmt.Printf("drive f64: seed %d, %d expressions, %d events\n", *seed, *n, ne)
		return
	}
	fam, ok := families[*family]
	if !ok {
		fmt.Fprintf(os.Stderr, "xvh: unknown family %q\n", *family)
		os.Exit(2)
	}
	for i := 0; i < *n; i++ {
		fam(g, r, *maxNodes, *maxSteps)
	}
	r.w.Flush()
	fmt.Printf("drive %s: seed %d, %d pairs, %d events\n", *family, *seed, *n, r.n)
}

type familyFn func(g *gen.G, r *recorder, maxNodes, maxSteps int)

var families = map[string]familyFn{
	// namespace configurations (C14): prefixed name tests, six maps, both navigator flavours
	"ns": func(g *gen.G, r *recorder, maxNodes, maxSteps int) {
		d := g.NsDoc(maxNodes)
		e := g.NsPath()
		o := xast.Opts{Abbrev: g.R.Intn(2) == 0, Space: " "}
		m := gen.NsMaps[g.R.Intn(len(gen.NsMaps))]
		r.record(d, e, o, 1+g.R.Intn(d.Len()), "set", m, g.R.Intn(2) == 0, false)
	},
	// unions (C11): each node exactly once
	"unions": func(g *gen.G, r *recorder, maxNodes, maxSteps int) {
		d := g.Doc(maxNodes)
		e := &xast.Expr{T: "union", L: g.UnionExpr(1), R: g.UnionExpr(2)}
		o := xast.Opts{Abbrev: g.R.Intn(2) == 0, Space: " "}
		for k := 0; k < 2; k++ {
			r.record(d, e, o, 1+g.R.Intn(d.Len()), "once", nil, false, k == 1)
		}
	},
	// the same grammar (and unions of such paths) run with a RECORDING navigator: delivery sequence and cursor movements,
	// validated by TLC against the implementation-shaped model (XVMBatch.tla)
	"vm": func(g *gen.G, r *recorder, maxNodes, maxSteps int) {
		d := g.Doc(maxNodes)
		e := g.PredPath()
		if g.R.Intn(10) == 0 {
			// a numeric predicate that is no integer (the engine truncates it: the model does the same)
			st := &e.Steps[len(e.Steps)-1]
			if len(st.Preds) == 0 {
				st.Preds = []*xast.Expr{{T: "num", V: &xast.Num{C: "fin", N: int64(1 + 2*g.R.Intn(3)), K: 1}}}
			}
		}
		if g.R.Intn(6) == 0 {
			e = &xast.Expr{T: "union", L: e, R: g.PredPath()}
		}
		o := xast.Opts{Abbrev: g.R.Intn(2) == 0, Space: " "}
		for k := 0; k < 2; k++ {
			r.recordVM(d, e, o, 1+g.R.Intn(d.Len()))
		}
	},
	// documents past the 64 / 256 thresholds (258-300 children, 66-72 levels, 66-70 attributes) with short expressions about
	// large positions, large unions, absolute paths from deep inside
	"scale": func(g *gen.G, r *recorder, maxNodes, maxSteps int) {
		d := g.ScaleDoc(g.R.Intn(3))
		for k := 0; k < 6; k++ {
			e, mode := g.ScaleExpr()
			o := xast.Opts{Abbrev: g.R.Intn(2) == 0, Space: " "}
			ctx := 1 + g.R.Intn(d.Len())
			if g.R.Intn(2) == 0 {
				ctx = d.Len() // the last node: the deepest one of a chain
			}
			r.record(d, e, o, ctx, mode, nil, false, k%2 == 1 || e.T == "call")
		}
	},
	// paths with boolean / positional predicates inside the C02 / C03 fragments
	"preds": func(g *gen.G, r *recorder, maxNodes, maxSteps int) {
		d := g.Doc(maxNodes)
		e := g.PredPath()
		if g.R.Intn(8) == 0 {
			// values that LOOK like numbers (white space of every kind, signs, exponents) under numeric comparisons
			d = g.NumLookDoc(maxNodes)
			e = &xast.Expr{T: "path", Abs: true, Steps: []xast.Step{{Ax: "descendant-or-self", Nt: xast.NT{K: "node"}},
				{Ax: "child", Nt: xast.NT{K: []string{"any", "node", "text"}[g.R.Intn(3)]}, Preds: []*xast.Expr{g.NumLookPred()}}}}
		}
		o := xast.Opts{Abbrev: g.R.Intn(2) == 0, Space: " "}
		for k := 0; k < 2; k++ {
			r.record(d, e, o, 1+g.R.Intn(d.Len()), "set", nil, false, false)
		}
	},
	// comparisons (C07), arithmetic (C08) and string functions (C09) inside their fragments, depth up to 4
	"values-bool": func(g *gen.G, r *recorder, maxNodes, maxSteps int) { valueFamily(g, r, maxNodes, 0) },
	"values-num":  func(g *gen.G, r *recorder, maxNodes, maxSteps int) { valueFamily(g, r, maxNodes, 1) },
	"values-str":  func(g *gen.G, r *recorder, maxNodes, maxSteps int) { valueFamily(g, r, maxNodes, 2) },
	"paths": func(g *gen.G, r *recorder, maxNodes, maxSteps int) {
		d := g.Doc(maxNodes)
		if g.R.Intn(5) == 0 {
			d = g.NsDoc(maxNodes) // prefixed elements and attributes: an unprefixed name test must not match them
		}
		e := g.Path(maxSteps)
		o := xast.Opts{Abbrev: g.R.Intn(2) == 0, Space: " "}
		for k := 0; k < 3; k++ {
			ctx := 1 + g.R.Intn(d.Len())
			r.record(d, e, o, ctx, "set", nil, false, k == 2)
		}
	},
}

func valueFamily(g *gen.G, r *recorder, maxNodes, which int) {
	d := g.Doc(maxNodes)
	var e *xast.Expr
	switch which {
	case 0:
		e = g.BoolExpr(2)
	case 1:
		e = g.NumExpr(3)
	default:
		e = g.StrExpr(3)
	}
	o := xast.Opts{Abbrev: g.R.Intn(2) == 0, Space: " "}
	for k := 0; k < 2; k++ {
		r.record(d, e, o, 1+g.R.Intn(d.Len()), "set", nil, false, true)
	}
	// comparisons also as predicates of a Select
	if which == 0 {
		g.NoDiv = true
		e = g.BoolExpr(2)
		g.NoDiv = false
		p := &xast.Expr{T: "path", Abs: true, Steps: []xast.Step{gen.DosNode(), {Ax: "child", Nt: xast.NT{K: "any"}, Preds: []*xast.Expr{e}}}}
		r.record(d, p, o, 1, "set", nil, false, false)
	}
}
