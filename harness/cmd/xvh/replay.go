package main

import (
	"bufio"
	"bytes"
	"encoding/json"
	"flag"
	"fmt"
	"hash/fnv"
	"os"
	"reflect"
	"sort"
	"strings"
	"sync"
	"sync/atomic"
	"time"

	"github.com/antchfx/xpath"
	"xvh/vdoc"
	"xvh/xast"
)

// Case is one behaviour emitted by a TLC model (Flow A).
//
//	k   kind: sel-set | sel-seq | sel-once | eval | ...
//	d   document (DocCode)
//	e   expression AST
//	r   expected reply per context node (index = node id - 1), or, with
//	    "cs" present, per listed context
//	cs  optional list of context node ids (default: every node)
//	ns  optional namespace map (CompileWithNS); nav "plain" selects the
//	    navigator flavour without NamespaceURL
type Case struct {
	K   string            `json:"k,omitempty"`
	D   *vdoc.Doc         `json:"d"`
	E   *xast.Expr        `json:"e"`
	R   []json.RawMessage `json:"r"`
	Cs  []int             `json:"cs,omitempty"`
	Ns  NsMap             `json:"ns,omitempty"`
	Nav string            `json:"nav,omitempty"`
	Tag string            `json:"tag,omitempty"`
	// kind "hash": the identity key the specification (XHash.tla) assigns to every node
	Keys []string `json:"keys,omitempty"`
}

// NsMap is a namespace map; TLC writes the empty function as [].
type NsMap map[string]string

// UnmarshalJSON accepts {} / {"p":"u"} / [] (the empty map).
func (m *NsMap) UnmarshalJSON(b []byte) error {
	if len(b) > 0 && b[0] == '[' {
		*m = NsMap{}
		return nil
	}
	var x map[string]string
	if err := json.Unmarshal(b, &x); err != nil {
		return err
	}
	*m = NsMap(x)
	return nil
}

// Mismatch is a disagreement between the engine and the specification.
type Mismatch struct {
	Line   int             `json:"line"`
	Kind   string          `json:"kind"` // case kind
	Expr   string          `json:"expr"` // rendered text given to Compile
	Render string          `json:"render"`
	Ctx    int             `json:"ctx"`
	Fail   string          `json:"fail"` // missing extra order dup value panic compile runaway type
	Want   json.RawMessage `json:"want"`
	Got    Outcome         `json:"got"`
	Via    string          `json:"via"` // Select | Evaluate
	Case   json.RawMessage `json:"case"`
}

type stats struct {
	Lines       int64             `json:"lines"`
	Cases       int64             `json:"cases"`       // (case line, rendering) pairs
	Evaluations int64             `json:"evaluations"` // engine calls compared
	Nontrivial  int64             `json:"nontrivial"`  // comparisons whose expected reply is non-empty / non-default
	DistinctNT  int               `json:"distinct_nontrivial"`
	Mismatches  int64             `json:"mismatches"`
	ByFail      map[string]int64  `json:"by_fail"`
	Samples     []json.RawMessage `json:"samples"`
	WallS       float64           `json:"wall_s"`
}

func renderings(mode string, line int) []xast.Opts {
	a := xast.Opts{Abbrev: true, Space: ""}
	f := xast.Opts{Abbrev: false, Space: " "}
	switch mode {
	case "both":
		l := f
		l.LongNum = true
		return []xast.Opts{a, f, l}
	case "abbr":
		return []xast.Opts{a}
	case "full":
		return []xast.Opts{f}
	}
	// alt: alternate by line number; every fifth line writes its number literals in the long form
	long := line%5 == 0
	a.LongNum, f.LongNum = long, long
	if line%2 == 0 {
		return []xast.Opts{a}
	}
	return []xast.Opts{f}
}

// uriVariant: the models name namespace URIs u1, u2, u3 (opaque strings).  Cases that carry namespaces are run a second
// time with realistic URIs that differ only in a trailing '/', and only in letter case: three DIFFERENT URIs.
func uriVariant(raw []byte) []byte {
	if !bytes.Contains(raw, []byte(`"u1"`)) && !bytes.Contains(raw, []byte(`"u2"`)) && !bytes.Contains(raw, []byte(`"u3"`)) {
		return nil
	}
	v := bytes.ReplaceAll(raw, []byte(`"u1"`), []byte(`"http://ex.org/ns/"`))
	v = bytes.ReplaceAll(v, []byte(`"u2"`), []byte(`"http://ex.org/ns"`))
	v = bytes.ReplaceAll(v, []byte(`"u3"`), []byte(`"HTTP://EX.ORG/NS/"`))
	return v
}

// unicodeVariants returns copies of an expression text in which the characters INSIDE string literals
// are replaced by multi-byte characters (2, 3 and 4 bytes), so that byte-versus-character confusions
// in the string functions are reached; texts without such literal characters have no variants.
func unicodeVariants(text string) []string {
	maps := []map[byte]string{
		{'x': "\u00e9", 'y': "\u65e5", 'w': "\U0001d11e"},
		{'a': "\u00e4", 'c': "\u00e7", '1': "\u0967"},
	}
	var out []string
	for _, m := range maps {
		var b strings.Builder
		var q byte
		changed := false
		for i := 0; i < len(text); i++ {
			ch := text[i]
			if q == 0 {
				if ch == '\'' || ch == '"' {
					q = ch
				}
				b.WriteByte(ch)
				continue
			}
			if ch == q {
				q = 0
				b.WriteByte(ch)
				continue
			}
			if r, ok := m[ch]; ok {
				b.WriteString(r)
				changed = true
			} else {
				b.WriteByte(ch)
			}
		}
		if changed {
			out = append(out, b.String())
		}
	}
	return out
}

func renderName(o xast.Opts) string {
	if o.Abbrev {
		return "abbr"
	}
	return "full"
}

func sortedSet(ids []int) []int {
	m := map[int]bool{}
	for _, i := range ids {
		m[i] = true
	}
	out := make([]int, 0, len(m))
	for i := range m {
		out = append(out, i)
	}
	sort.Ints(out)
	return out
}

// compareIDs returns "" or the failure class.
func compareIDs(kind string, want, got []int) string {
	ws, gs := sortedSet(want), sortedSet(got)
	if !reflect.DeepEqual(ws, gs) {
		wm := map[int]bool{}
		for _, i := range ws {
			wm[i] = true
		}
		gm := map[int]bool{}
		for _, i := range gs {
			gm[i] = true
		}
		missing, extra := false, false
		for _, i := range ws {
			if !gm[i] {
				missing = true
			}
		}
		for _, i := range gs {
			if !wm[i] {
				extra = true
			}
		}
		switch {
		case missing && extra:
			return "missing+extra"
		case missing:
			return "missing"
		default:
			return "extra"
		}
	}
	switch kind {
	case "sel-set":
		return ""
	case "sel-once":
		if len(got) != len(gs) {
			return "dup"
		}
		return ""
	case "sel-seq":
		if len(got) != len(gs) {
			return "dup"
		}
		if !reflect.DeepEqual(want, got) {
			return "order"
		}
		return ""
	}
	return ""
}

func valueEqual(want *Value, got *Value) bool {
	if want == nil || got == nil || want.T != got.T {
		return false
	}
	wb, _ := json.Marshal(want.V)
	gb, _ := json.Marshal(got.V)
	if want.T == "n" {
		var w, g xast.Num
		json.Unmarshal(wb, &w)
		json.Unmarshal(gb, &g)
		if w.C != g.C {
			return false
		}
		switch w.C {
		case "nan":
			return true
		case "inf":
			return w.Neg == g.Neg
		}
		return w == g
	}
	return string(wb) == string(gb)
}

type worker struct {
	mode  string
	kind  string
	st    *stats
	mu    *sync.Mutex
	out   *bufio.Writer
	nt    map[string]struct{}
	cur   atomic.Value // current case description for the watchdog
	curAt atomic.Int64
}

func (w *worker) report(m Mismatch) {
	b, _ := json.Marshal(m)
	w.mu.Lock()
	w.out.Write(b)
	w.out.WriteByte('\n')
	w.st.Mismatches++
	w.st.ByFail[m.Fail]++
	w.mu.Unlock()
}

func (w *worker) runCase(line int, raw []byte) {
	var c Case
	if err := json.Unmarshal(raw, &c); err != nil {
		fmt.Fprintf(os.Stderr, "xvh: line %d: bad case: %v\n", line, err)
		os.Exit(2)
	}
	kind := c.K
	if kind == "" {
		kind = w.kind
	}
	if kind == "hash" {
		w.runHash(line, raw, &c)
		return
	}
	if kind == "f64" {
		w.runF64(line, raw)
		return
	}
	// the model marks node-set cases "sel-set"; a check that requires more (each node once, document
	// order) says so on the command line
	if kind == "sel-set" && (w.kind == "sel-once" || w.kind == "sel-seq") {
		kind = w.kind
	}
	plain := c.Nav == "plain"
	ctxs := c.Cs
	if ctxs == nil {
		ctxs = make([]int, c.D.Len())
		for i := range ctxs {
			ctxs[i] = i + 1
		}
	}
	if len(c.R) != len(ctxs) {
		fmt.Fprintf(os.Stderr, "xvh: line %d: %d expectations for %d contexts\n", line, len(c.R), len(ctxs))
		os.Exit(2)
	}
	var evals, nontriv int64
	localNT := []string{}
	for _, o := range renderings(w.mode, line) {
		text := xast.Print(c.E, o)
		w.cur.Store(fmt.Sprintf("line %d expr %s", line, text))
		w.curAt.Store(time.Now().UnixNano())
		if w.kind == "total" {
			// C06 over expression-shaped inputs (every function with every typed argument tuple, ...): Compile,
			// CompileWithNS and MustCompile must yield exactly one of (expression, error) and must not panic
			evals++
			if res := totality(text); res != "ok" && res != "err" {
				w.report(Mismatch{Line: line, Kind: "total", Expr: text, Render: renderName(o), Fail: "totality", Want: json.RawMessage(`"exactly one of (expression, error)"`), Got: Outcome{Msg: res}, Via: "Compile", Case: raw})
			} else if res == "ok" {
				nontriv++
				if len(localNT) == 0 {
					localNT = append(localNT, text)
				}
			}
			atomic.AddInt64(&w.st.Cases, 1)
			continue
		}
		ex, err, co := compile(text, c.Ns)
		if kind == "compile-err" {
			evals++
			nontriv++
			if len(localNT) == 0 {
				localNT = append(localNT, text)
			}
			if err == nil || ex != nil || co.Panic != "" {
				w.report(Mismatch{Line: line, Kind: kind, Expr: text, Render: renderName(o), Fail: "compile-accepted", Want: c.R[0], Got: co, Via: "Compile", Case: raw})
			}
			atomic.AddInt64(&w.st.Cases, 1)
			continue
		}
		if kind == "vm" {
			// XQueryVM: the engine's delivery sequence and cursor movements vs the implementation-shaped model
			if err != nil || ex == nil || co.Panic != "" {
				w.report(Mismatch{Line: line, Kind: kind, Expr: text, Render: renderName(o), Fail: "compile", Got: co, Case: raw})
				continue
			}
			for ci, ctx := range ctxs {
				var want struct {
					Nodes []int `json:"nodes"`
					Ops   []int `json:"ops"` // flattened (code, from, to)
				}
				if err := json.Unmarshal(c.R[ci], &want); err != nil {
					fmt.Fprintf(os.Stderr, "xvh: line %d: bad vm expectation: %v\n", line, err)
					os.Exit(2)
				}
				var log []vdoc.Move
				var got Outcome
				func() {
					defer guard(&got)
					it := ex.Select(c.D.AtRec(ctx, &log))
					got.IDs, got.Runaway = drain(it, runawayLimit)
				}()
				evals++
				if len(want.Nodes) > 0 {
					nontriv++
					if len(localNT) == 0 {
						localNT = append(localNT, text)
					}
				}
				fail := ""
				switch {
				case got.Panic != "":
					fail = "panic:" + got.Panic
				case w.kind == "vm-seq":
					// C12 as a VERDICT: for a flat path the model's delivery sequence is, by the TLC invariants
					// VMRefines and VMOrdered, the denotation in document order; the engine must deliver exactly it
					if c.Tag == "flat" && !reflect.DeepEqual(append([]int{}, want.Nodes...), append([]int{}, got.IDs...)) {
						fail = "seq-order"
					}
				case !reflect.DeepEqual(append([]int{}, want.Nodes...), append([]int{}, got.IDs...)):
					fail = "vm-nodes"
				default:
					if len(want.Ops) == 1 {
						// movement list too long to be emitted: nodes only
					} else if len(want.Ops) != 3*len(log) {
						fail = "vm-ops"
					} else {
						for k, m := range log {
							if vmOpCode[m.Op] != want.Ops[3*k] || m.From != want.Ops[3*k+1] || m.To != want.Ops[3*k+2] {
								fail = "vm-ops"
								break
							}
						}
					}
				}
				if fail != "" {
					got.Msg = fmt.Sprint(log)
					w.report(Mismatch{Line: line, Kind: kind, Expr: text, Render: renderName(o), Ctx: ctx, Fail: fail, Want: c.R[ci], Got: got, Via: "Select", Case: raw})
				}
			}
			atomic.AddInt64(&w.st.Cases, 1)
			continue
		}
		if kind == "noerr" {
			// C15: whatever Compile accepted must not fail with a Go runtime error.  Besides the text itself,
			// variants whose string literals carry multi-byte characters (TLC cannot write non-ASCII strings)
			for vi, vt := range append([]string{text}, unicodeVariants(text)...) {
				if vi > 0 {
					ex, err, co = compile(vt, c.Ns)
				}
				evals++
				if co.Panic != "" {
					w.report(Mismatch{Line: line, Kind: kind, Expr: vt, Render: renderName(o), Fail: "compile-panic:" + co.Panic, Got: co, Via: "Compile", Case: raw})
					continue
				}
				if err != nil || ex == nil {
					continue // rejected by Compile: fine
				}
				if vi == 0 {
					nontriv++
					if len(localNT) == 0 {
						localNT = append(localNT, text)
					}
				}
				for _, ctx := range ctxs {
					for _, via := range []string{"Select", "Evaluate"} {
						ex2, _, _ := compile(vt, c.Ns)
						var got Outcome
						if via == "Select" {
							got = doSelect(ex2, c.D, ctx, plain)
						} else {
							got = doEvaluate(ex2, c.D, ctx, plain)
						}
						evals++
						fail := ""
						switch {
						case got.Panic != "" && got.Panic != "deliberate":
							fail = "panic:" + got.Panic
						case got.Typ != "":
							fail = "type"
						case got.Runaway:
							fail = "runaway"
						}
						if fail != "" {
							w.report(Mismatch{Line: line, Kind: kind, Expr: vt, Render: renderName(o), Ctx: ctx, Fail: fail, Want: c.R[0], Got: got, Via: via, Case: raw})
						}
					}
				}
			}
			atomic.AddInt64(&w.st.Cases, 1)
			continue
		}
		if err != nil || co.Panic != "" || ex == nil {
			if err != nil {
				co.Msg = err.Error()
			}
			w.report(Mismatch{Line: line, Kind: kind, Expr: text, Render: renderName(o), Fail: "compile", Got: co, Case: raw})
			continue
		}
		for ci, ctx := range ctxs {
			switch kind {
			case "sel-set", "sel-seq", "sel-once":
				var want []int
				if err := json.Unmarshal(c.R[ci], &want); err != nil {
					fmt.Fprintf(os.Stderr, "xvh: line %d: bad expectation: %v\n", line, err)
					os.Exit(2)
				}
				if len(want) > 0 {
					nontriv++
					if ci == 0 || len(localNT) == 0 {
						localNT = append(localNT, text)
					}
				}
				for _, via := range []string{"Select", "Evaluate"} {
					var got Outcome
					if via == "Select" {
						got = doSelect(ex, c.D, ctx, plain)
					} else {
						// Evaluate runs on a fresh compile: reuse of one
						// Expr is the subject of C04, not of this check
						ex2, _, _ := compile(text, c.Ns)
						got = doEvaluate(ex2, c.D, ctx, plain)
					}
					evals++
					fail := ""
					switch {
					case got.Panic != "":
						fail = "panic:" + got.Panic
					case got.Runaway:
						fail = "runaway"
					case got.Typ != "" || got.Val != nil:
						fail = "type"
					default:
						fail = compareIDs(kind, want, got.IDs)
					}
					if fail != "" {
						w.report(Mismatch{Line: line, Kind: kind, Expr: text, Render: renderName(o), Ctx: ctx, Fail: fail, Want: c.R[ci], Got: got, Via: via, Case: raw})
					}
				}
			case "eval":
				var want Value
				if err := json.Unmarshal(c.R[ci], &want); err != nil {
					fmt.Fprintf(os.Stderr, "xvh: line %d: bad expectation: %v\n", line, err)
					os.Exit(2)
				}
				got := doEvaluate(ex, c.D, ctx, plain)
				evals++
				nontriv++
				if len(localNT) == 0 {
					localNT = append(localNT, text)
				}
				fail := ""
				switch {
				case got.Panic != "":
					fail = "panic:" + got.Panic
				case got.Typ != "":
					fail = "type"
				case want.T == "ns":
					var ids []int
					b, _ := json.Marshal(want.V)
					json.Unmarshal(b, &ids)
					if got.Val != nil {
						fail = "type"
					} else {
						fail = compareIDs("sel-set", ids, got.IDs)
					}
				case got.Val == nil:
					fail = "type"
				case !valueEqual(&want, got.Val):
					fail = "value"
				}
				if fail != "" {
					w.report(Mismatch{Line: line, Kind: kind, Expr: text, Render: renderName(o), Ctx: ctx, Fail: fail, Want: c.R[ci], Got: got, Via: "Evaluate", Case: raw})
				}
			default:
				fmt.Fprintf(os.Stderr, "xvh: line %d: unknown case kind %q\n", line, kind)
				os.Exit(2)
			}
		}
		atomic.AddInt64(&w.st.Cases, 1)
	}
	atomic.AddInt64(&w.st.Evaluations, evals)
	atomic.AddInt64(&w.st.Nontrivial, nontriv)
	if len(localNT) > 0 {
		db, _ := json.Marshal(c.D)
		w.mu.Lock()
		for _, t := range localNT {
			w.nt[t+"\x00"+string(db)] = struct{}{}
		}
		w.mu.Unlock()
	}
}

var vmOpCode = map[string]int{"child": 1, "next": 2, "prev": 3, "parent": 4, "root": 5, "first": 6, "nextattr": 7}

// decodeLine undoes TLC's CSVWrite quoting: a line is either raw JSON or a
// TLA+ string literal containing JSON.
func decodeLine(b []byte) []byte {
	if len(b) > 0 && b[0] == '"' {
		var s string
		if err := json.Unmarshal(b, &s); err == nil {
			return []byte(s)
		}
	}
	return b
}

func cmdReplay(args []string) {
	fs := flag.NewFlagSet("replay", flag.ExitOnError)
	in := fs.String("in", "", "case file (ndjson emitted by TLC)")
	out := fs.String("out", "", "mismatch file")
	statsF := fs.String("stats", "", "stats file")
	kind := fs.String("kind", "sel-set", "default case kind")
	mode := fs.String("render", "alt", "both|abbr|full|alt")
	nw := fs.Int("workers", 16, "parallel workers")
	fs.Parse(args)
	t0 := time.Now()
	f, err := os.Open(*in)
	if err != nil {
		fmt.Fprintln(os.Stderr, "xvh:", err)
		os.Exit(2)
	}
	defer f.Close()
	of, err := os.Create(*out)
	if err != nil {
		fmt.Fprintln(os.Stderr, "xvh:", err)
		os.Exit(2)
	}
	bw := bufio.NewWriter(of)
	st := &stats{ByFail: map[string]int64{}}
	mu := &sync.Mutex{}
	nt := map[string]struct{}{}
	type job struct {
		line int
		raw  []byte
	}
	jobs := make(chan job, 1024)
	var wg sync.WaitGroup
	workers := make([]*worker, *nw)
	for i := range workers {
		w := &worker{mode: *mode, kind: *kind, st: st, mu: mu, out: bw, nt: nt}
		workers[i] = w
		wg.Add(1)
		go func() {
			defer wg.Done()
			for j := range jobs {
				w.runCase(j.line, j.raw)
				if v := uriVariant(j.raw); v != nil {
					w.runCase(j.line, v)
				}
				w.curAt.Store(0)
			}
		}()
	}
	// watchdog: an engine call that does not return is a hang
	go func() {
		for {
			time.Sleep(500 * time.Millisecond)
			now := time.Now().UnixNano()
			for _, w := range workers {
				at := w.curAt.Load()
				if at != 0 && now-at > int64(20*time.Second) {
					fmt.Fprintf(os.Stderr, "xvh: HANG %v\n", w.cur.Load())
					mu.Lock()
					bw.Flush()
					os.Exit(3)
				}
			}
		}
	}()
	sc := bufio.NewScanner(f)
	sc.Buffer(make([]byte, 1<<20), 1<<26)
	line := 0
	for sc.Scan() {
		line++
		raw := decodeLine(append([]byte(nil), sc.Bytes()...))
		if len(st.Samples) < 3 || (line%100003 == 0 && len(st.Samples) < 8) {
			st.Samples = append(st.Samples, json.RawMessage(raw))
		}
		jobs <- job{line, raw}
	}
	close(jobs)
	wg.Wait()
	bw.Flush()
	of.Close()
	st.Lines = int64(line)
	st.DistinctNT = len(nt)
	st.WallS = time.Since(t0).Seconds()
	b, _ := json.MarshalIndent(st, "", " ")
	if *statsF != "" {
		os.WriteFile(*statsF, b, 0o644)
	}
	fmt.Printf("replay: %d lines, %d cases, %d evaluations, %d mismatches, %.1fs\n", st.Lines, st.Cases, st.Evaluations, st.Mismatches, st.WallS)
}

func cmdPrint(args []string) {
	var e xast.Expr
	if err := json.NewDecoder(os.Stdin).Decode(&e); err != nil {
		fmt.Fprintln(os.Stderr, err)
		os.Exit(2)
	}
	fmt.Println(xast.Print(&e, xast.Opts{Abbrev: true}))
	fmt.Println(xast.Print(&e, xast.Opts{Abbrev: false, Space: " "}))
}

func cmdNavcheck(args []string) { fmt.Fprintln(os.Stderr, "navcheck: not built yet"); os.Exit(2) }

// runHash: getHashCode (through the hook VerifHashCode) of every node must be the FNV-64a hash of the key
// XHash.tla assigns to the node, from both navigator flavours, and no two nodes of a document may hash alike.
func (w *worker) runHash(line int, raw []byte, c *Case) {
	if len(c.Keys) != c.D.Len() {
		fmt.Fprintf(os.Stderr, "xvh: line %d: %d keys for %d nodes\n", line, len(c.Keys), c.D.Len())
		os.Exit(2)
	}
	seen := map[uint64]int{}
	var evals int64
	for i := 1; i <= c.D.Len(); i++ {
		h := fnv.New64a()
		h.Write([]byte(c.Keys[i-1]))
		want := h.Sum64()
		for _, plain := range []bool{false, true} {
			var got uint64
			var o Outcome
			func() {
				defer guard(&o)
				got = xpath.VerifHashCode(navAt(c.D, i, plain))
			}()
			evals++
			fail := ""
			switch {
			case o.Panic != "":
				fail = "panic:" + o.Panic
			case got != want:
				fail = "hash-key"
			}
			if fail == "" && !plain {
				if j, dup := seen[got]; dup {
					fail = fmt.Sprintf("hash-collision with node %d", j)
				}
				seen[got] = i
			}
			if fail != "" {
				o.Msg = fmt.Sprintf("getHashCode=%#x, fnv64a(key)=%#x", got, want)
				wj, _ := json.Marshal(c.Keys[i-1])
				w.report(Mismatch{Line: line, Kind: "hash", Expr: "getHashCode", Render: "-", Ctx: i, Fail: fail, Want: wj, Got: o, Via: "VerifHashCode", Case: raw})
			}
		}
	}
	atomic.AddInt64(&w.st.Cases, 1)
	atomic.AddInt64(&w.st.Evaluations, evals)
	atomic.AddInt64(&w.st.Nontrivial, evals)
}
