package main

import (
	"bufio"
	"encoding/json"
	"flag"
	"fmt"
	"hash/fnv"
	"math/rand"
	"os"

	"github.com/antchfx/xpath"

	"xvh/vdoc"
	"xvh/xast"
)

// histInput is one line emitted by MC_Hist: a skeleton, a pool entry or a document.
type histInput struct {
	K string          `json:"k"`
	H [][]interface{} `json:"h,omitempty"`
	E *xast.Expr      `json:"e,omitempty"`
	M string          `json:"m,omitempty"`
	D *vdoc.Doc       `json:"d,omitempty"`
}

type skelOp struct {
	Op  string
	Arg int
}

// obs is what a fresh evaluation returned at one slot.
type obs struct {
	IDs   []int  `json:"ids,omitempty"`
	Val   *Value `json:"val,omitempty"`
	Panic string `json:"panic,omitempty"`
	Msg   string `json:"msg,omitempty"`
	isSet bool
}

func (o obs) MarshalJSON() ([]byte, error) {
	switch {
	case o.Panic != "":
		return json.Marshal(map[string]interface{}{"panic": o.Panic, "msg": o.Msg})
	case o.Val != nil:
		return json.Marshal(map[string]interface{}{"val": o.Val})
	}
	ids := o.IDs
	if ids == nil {
		ids = []int{}
	}
	return json.Marshal(map[string]interface{}{"ids": ids})
}

// hev is one recorded API call of a history.
type hev map[string]interface{}

type session struct {
	Ds    []*vdoc.Doc `json:"ds"`
	Cs    [][2]int    `json:"cs"`
	E     *xast.Expr  `json:"e"`
	M     string      `json:"m"`
	X     string      `json:"x"`
	Fresh []obs       `json:"fresh"`
	H     []hev       `json:"h"`
	Skel  string      `json:"skel"`
}

func freshObs(text string, d *vdoc.Doc, node int) obs {
	ex, err, co := compile(text, nil)
	if err != nil || ex == nil || co.Panic != "" {
		return obs{Panic: "compile", Msg: fmt.Sprint(err, co.Msg)}
	}
	ev := doEvaluate(ex, d, node, false)
	switch {
	case ev.Panic != "":
		return obs{Panic: ev.Panic, Msg: ev.Msg}
	case ev.Typ != "":
		return obs{Panic: "type", Msg: ev.Typ}
	case ev.Val != nil:
		return obs{Val: ev.Val}
	}
	// node-set: the reference sequence is what Select delivers on another fresh compile
	ex2, _, _ := compile(text, nil)
	sel := doSelect(ex2, d, node, false)
	if sel.Panic != "" {
		return obs{Panic: sel.Panic, Msg: sel.Msg}
	}
	return obs{IDs: sel.IDs, isSet: true}
}

// runSession executes one skeleton on ONE shared compiled expression.
func runSession(e *xast.Expr, mode string, ds []*vdoc.Doc, cs [][2]int, skel []skelOp, o xast.Opts) *session {
	text := xast.Print(e, o)
	s := &session{Ds: ds, Cs: cs, E: e, M: mode, X: text}
	for _, c := range cs {
		s.Fresh = append(s.Fresh, freshObs(text, ds[c[0]-1], c[1]))
	}
	shared, err, co := compile(text, nil)
	if err != nil || shared == nil || co.Panic != "" {
		return s
	}
	type itState struct {
		it        *xpath.NodeIterator
		delivered int
		done      bool
	}
	var its []*itState
	nodeSet := s.Fresh[0].isSet
	call := func(op string, ev hev, f func()) (ok bool) {
		ev["op"] = op
		defer func() {
			if r := recover(); r != nil {
				class, msg, _ := classifyPanic(r)
				ev["panic"], ev["msg"] = class, msg
				s.H = append(s.H, ev)
				ok = false
			}
		}()
		f()
		s.H = append(s.H, ev)
		return true
	}
	for _, op := range skel {
		ok := true
		switch op.Op {
		case "S", "E":
			c := op.Arg
			if c > len(cs) {
				continue
			}
			d, node := ds[cs[c-1][0]-1], cs[c-1][1]
			if op.Op == "S" && nodeSet {
				ok = call("Select", hev{"ctx": c}, func() {
					its = append(its, &itState{it: shared.Select(d.At(node))})
				})
			} else {
				ev := hev{"ctx": c}
				ok = call("Evaluate", ev, func() {
					v := shared.Evaluate(d.At(node))
					switch x := v.(type) {
					case *xpath.NodeIterator:
						its = append(its, &itState{it: x})
					case bool:
						ev["val"] = &Value{T: "b", V: x}
					case float64:
						ev["val"] = numValue(x)
					case string:
						ev["val"] = &Value{T: "s", V: x}
					default:
						panic(fmt.Errorf("undocumented result type %T", v))
					}
				})
			}
		case "M":
			if op.Arg > len(its) {
				continue
			}
			st := its[op.Arg-1]
			ev := hev{"it": op.Arg}
			ok = call("MoveNext", ev, func() {
				r := st.it.MoveNext()
				ev["ret"] = r
				if r {
					ev["cur"] = vdoc.IDOf(st.it.Current())
					st.delivered++
				} else {
					st.done = true
				}
			})
		case "C":
			if op.Arg > len(its) {
				continue
			}
			st := its[op.Arg-1]
			if st.delivered == 0 || st.done {
				continue
			}
			ev := hev{"it": op.Arg}
			ok = call("Current", ev, func() { ev["cur"] = vdoc.IDOf(st.it.Current()) })
		}
		if !ok {
			return s
		}
	}
	// every iterator still open is drained, then asked 3 more times: MoveNext must keep returning
	// false, and Current must stay on the node just delivered while other iterators move (C12)
	for k, st := range its {
		for n := 0; !st.done && n < 4*ds[0].Len()+64; n++ {
			ev := hev{"it": k + 1}
			if !call("MoveNext", ev, func() {
				r := st.it.MoveNext()
				ev["ret"] = r
				if r {
					ev["cur"] = vdoc.IDOf(st.it.Current())
					st.delivered++
				} else {
					st.done = true
				}
			}) {
				return s
			}
		}
		for x := 0; x < 3; x++ {
			ev := hev{"it": k + 1}
			if !call("MoveNext", ev, func() {
				r := st.it.MoveNext()
				ev["ret"] = r
				if r {
					ev["cur"] = vdoc.IDOf(st.it.Current())
				}
			}) {
				return s
			}
		}
	}
	// count(e) and reverse(e) through separately compiled expressions (C12)
	if nodeSet {
		d, node := ds[cs[0][0]-1], cs[0][1]
		ce := &xast.Expr{T: "call", F: "count", Args: []*xast.Expr{e}}
		if cx, err, _ := compile(xast.Print(ce, o), nil); err == nil && cx != nil {
			out := doEvaluate(cx, d, node, false)
			if out.Val != nil && out.Val.T == "n" {
				if n, ok := out.Val.V.(xast.Num); ok && n.C == "fin" && n.K == 0 {
					s.H = append(s.H, hev{"op": "Count", "ctx": 1, "val": n.N})
				}
			} else if out.Panic != "" {
				s.H = append(s.H, hev{"op": "Count", "ctx": 1, "panic": out.Panic, "msg": out.Msg})
				return s
			}
		}
		re := &xast.Expr{T: "call", F: "reverse", Args: []*xast.Expr{e}}
		if rx, err, _ := compile(xast.Print(re, o), nil); err == nil && rx != nil {
			out := doSelect(rx, d, node, false)
			if out.Panic != "" {
				s.H = append(s.H, hev{"op": "Reverse", "ctx": 1, "panic": out.Panic, "msg": out.Msg})
			} else {
				s.H = append(s.H, hev{"op": "Reverse", "ctx": 1, "ids": out.IDs})
			}
		}
	}
	return s
}

func cmdHist(args []string) {
	fs := flag.NewFlagSet("hist", flag.ExitOnError)
	in := fs.String("in", "", "MC_Hist output (skeletons, pool, documents)")
	out := fs.String("out", "", "session trace file")
	seed := fs.Int64("seed", 1, "seed")
	perExpr := fs.Int("docs", 1, "documents per (expression, skeleton) pair")
	fs.Parse(args)
	f, err := os.Open(*in)
	if err != nil {
		fmt.Fprintln(os.Stderr, "xvh:", err)
		os.Exit(2)
	}
	defer f.Close()
	var skels [][]skelOp
	var skelText []string
	type pe struct {
		e *xast.Expr
		m string
	}
	var pool []pe
	var docs []*vdoc.Doc
	sc := bufio.NewScanner(f)
	sc.Buffer(make([]byte, 1<<20), 1<<26)
	for sc.Scan() {
		raw := decodeLine(append([]byte(nil), sc.Bytes()...))
		var hi histInput
		if err := json.Unmarshal(raw, &hi); err != nil {
			fmt.Fprintln(os.Stderr, "xvh: bad MC_Hist line:", err)
			os.Exit(2)
		}
		switch hi.K {
		case "skel":
			var ops []skelOp
			for _, o := range hi.H {
				ops = append(ops, skelOp{Op: o[0].(string), Arg: int(o[1].(float64))})
			}
			skels = append(skels, ops)
			b, _ := json.Marshal(hi.H)
			skelText = append(skelText, string(b))
		case "expr":
			pool = append(pool, pe{hi.E, hi.M})
		case "doc":
			docs = append(docs, hi.D)
		}
	}
	of, err := os.Create(*out)
	if err != nil {
		fmt.Fprintln(os.Stderr, "xvh:", err)
		os.Exit(2)
	}
	defer of.Close()
	w := bufio.NewWriter(of)
	defer w.Flush()
	n := 0
	for pi, p := range pool {
		// contexts that TELL: group the nodes of every document by what a fresh evaluation observes there; half of the
		// sessions take both slots from the document with the most different observations, from different groups
		// (state that leaks from one evaluation into the next only shows when the two answers differ)
		ptext := xast.Print(p.e, xast.Opts{Abbrev: false, Space: " "})
		best, bestGroups := -1, [][]int(nil)
		for di, d := range docs {
			groups := map[string][]int{}
			var order []string
			for node := 1; node <= d.Len(); node++ {
				b, _ := json.Marshal(freshObs(ptext, d, node))
				k := string(b)
				if _, ok := groups[k]; !ok {
					order = append(order, k)
				}
				groups[k] = append(groups[k], node)
			}
			if len(order) > len(bestGroups) {
				best, bestGroups = di, nil
				for _, k := range order {
					bestGroups = append(bestGroups, groups[k])
				}
			}
		}
		for si, sk := range skels {
			for k := 0; k < *perExpr; k++ {
				h := fnv.New64a()
				fmt.Fprintf(h, "%d/%d/%d/%d", *seed, pi, si, k)
				r := rand.New(rand.NewSource(int64(h.Sum64())))
				var ds []*vdoc.Doc
				var cs [][2]int
				if (si+k)%2 == 0 && len(bestGroups) >= 2 {
					g1 := r.Intn(len(bestGroups))
					g2 := (g1 + 1 + r.Intn(len(bestGroups)-1)) % len(bestGroups)
					ds = []*vdoc.Doc{docs[best]}
					cs = [][2]int{{1, bestGroups[g1][r.Intn(len(bestGroups[g1]))]}, {1, bestGroups[g2][r.Intn(len(bestGroups[g2]))]}}
				} else {
					d1 := r.Intn(len(docs))
					ds = []*vdoc.Doc{docs[d1]}
					cs = [][2]int{{1, 1 + r.Intn(docs[d1].Len())}}
					// slot 2: another node of the same document, or a node of another document
					if r.Intn(2) == 0 {
						d2 := r.Intn(len(docs))
						ds = append(ds, docs[d2])
						cs = append(cs, [2]int{2, 1 + r.Intn(docs[d2].Len())})
					} else {
						cs = append(cs, [2]int{1, 1 + r.Intn(docs[d1].Len())})
					}
				}
				o := xast.Opts{Abbrev: r.Intn(2) == 0, Space: " "}
				s := runSession(p.e, p.m, ds, cs, sk, o)
				s.Skel = skelText[si]
				b, err := json.Marshal(s)
				if err != nil {
					panic(err)
				}
				w.Write(b)
				w.WriteByte('\n')
				n++
			}
		}
	}
	w.Flush()
	fmt.Printf("hist: seed %d, %d expressions x %d skeletons x %d -> %d sessions\n", *seed, len(pool), len(skels), *perExpr, n)
}
