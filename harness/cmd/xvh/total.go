package main

import (
	"bufio"
	"encoding/json"
	"flag"
	"fmt"
	"go/ast"
	"go/parser"
	"go/token"
	"math/rand"
	"os"
	"path/filepath"
	"runtime/debug"
	"sort"
	"strings"
	"sync/atomic"
	"time"

	"github.com/antchfx/xpath"
)

// ---------------------------------------------------------------------------
// skel: call graph of the parser and the builder, from the working tree
func cmdSkel(args []string) {
	fs := flag.NewFlagSet("skel", flag.ExitOnError)
	repo := fs.String("repo", "/repo", "repository")
	out := fs.String("out", "", "output (one JSON line)")
	fs.Parse(args)
	fset := token.NewFileSet()
	funcs := map[string]*ast.FuncDecl{}
	for _, name := range []string{"parse.go", "build.go"} {
		f, err := parser.ParseFile(fset, filepath.Join(*repo, name), nil, 0)
		if err != nil {
			fmt.Fprintln(os.Stderr, "xvh skel:", err)
			os.Exit(2)
		}
		for _, d := range f.Decls {
			if fd, ok := d.(*ast.FuncDecl); ok && fd.Body != nil {
				funcs[fd.Name.Name] = fd
			}
		}
	}
	var names []string
	for n := range funcs {
		names = append(names, n)
	}
	sort.Strings(names)
	var edges [][2]string
	var guarded []string
	for _, n := range names {
		fd := funcs[n]
		seen := map[string]bool{}
		isGuard := false
		ast.Inspect(fd.Body, func(x ast.Node) bool {
			switch c := x.(type) {
			case *ast.CallExpr:
				callee := ""
				switch f := c.Fun.(type) {
				case *ast.Ident:
					callee = f.Name
				case *ast.SelectorExpr:
					callee = f.Sel.Name
				}
				if _, ok := funcs[callee]; ok && !seen[callee] {
					seen[callee] = true
					edges = append(edges, [2]string{n, callee})
				}
			case *ast.BinaryExpr:
				// a depth guard:  <x>.d > N   or  <x>.parseDepth > N  (also with an init statement)
				if c.Op == token.GTR {
					if sel, ok := c.X.(*ast.SelectorExpr); ok && (sel.Sel.Name == "d" || sel.Sel.Name == "parseDepth") {
						if _, ok := c.Y.(*ast.BasicLit); ok {
							isGuard = true
						}
					}
				}
			}
			return true
		})
		if isGuard {
			guarded = append(guarded, n)
		}
	}
	if guarded == nil {
		guarded = []string{}
	}
	b, _ := json.Marshal(map[string]interface{}{"funcs": names, "edges": edges, "guarded": guarded, "roots": []string{"parse", "build"}})
	os.WriteFile(*out, append(b, '\n'), 0o644)
	fmt.Printf("skel: %d functions, %d call edges, guarded: %v\n", len(names), len(edges), guarded)
}

// ---------------------------------------------------------------------------
// deep: one nesting pattern at one depth, in THIS process (the caller runs it
// as a subprocess: a stack overflow kills the process, which is the verdict)
var pumpPatterns = map[string]func(n int) string{
	"paren-expr":     func(n int) string { return strings.Repeat("(", n) + "1" + strings.Repeat(")", n) },
	"paren-path":     func(n int) string { return strings.Repeat("(", n) + "a" + strings.Repeat(")", n) },
	"sequence-step":  func(n int) string { return "a/" + strings.Repeat("(", n) + "b" + strings.Repeat(")", n) },
	"predicate":      func(n int) string { return strings.Repeat("a[", n) + "b" + strings.Repeat("]", n) },
	"function":       func(n int) string { return strings.Repeat("not(", n) + "a" + strings.Repeat(")", n) },
	"unary-minus":    func(n int) string { return strings.Repeat("-", n) + "1" },
	"long-path":      func(n int) string { return "a" + strings.Repeat("/a", n) },
	"long-sum":       func(n int) string { return "1" + strings.Repeat("+1", n) },
	"long-union":     func(n int) string { return "a" + strings.Repeat("|a", n) },
	"long-or":        func(n int) string { return "a" + strings.Repeat(" or a", n) },
	"many-preds":     func(n int) string { return "a" + strings.Repeat("[1]", n) },
	"many-args":      func(n int) string { return "concat(" + strings.Repeat("'a',", n) + "'b')" },
	"slash-slash":    func(n int) string { return "a" + strings.Repeat("//a", n) },
	"seq-in-seq":     func(n int) string { return strings.Repeat("a/(", n) + "b" + strings.Repeat(")", n) },
	"filter-paren":   func(n int) string { return strings.Repeat("(", n) + "a" + strings.Repeat(")[1]", n) },
	"open-only":      func(n int) string { return strings.Repeat("(", n) },
	"bracket-only":   func(n int) string { return "a" + strings.Repeat("[", n) },
	"seq-open-only":  func(n int) string { return "a/" + strings.Repeat("(", n) },
	"long-literal":   func(n int) string { return "'" + strings.Repeat("x", n) + "'" },
	"long-name":      func(n int) string { return strings.Repeat("x", n) },
	"nested-fn-args": func(n int) string { return strings.Repeat("concat(a,", n) + "b" + strings.Repeat(")", n) },
}

func init() {
	// every function nested in itself, through its first and through its last argument
	type sig struct {
		name      string
		pre, post string // the other (constant) arguments before / after the nested one
	}
	for _, f := range []sig{
		{"not", "", ""}, {"boolean", "", ""}, {"string", "", ""}, {"number", "", ""}, {"count", "", ""}, {"sum", "", ""},
		{"floor", "", ""}, {"ceiling", "", ""}, {"round", "", ""}, {"name", "", ""}, {"local-name", "", ""}, {"namespace-uri", "", ""},
		{"string-length", "", ""}, {"normalize-space", "", ""}, {"lower-case", "", ""}, {"reverse", "", ""},
		{"concat", "", ",'x'"}, {"concat", "'x',", ""}, {"contains", "", ",'x'"}, {"contains", "'x',", ""},
		{"starts-with", "", ",'x'"}, {"ends-with", "'x',", ""}, {"substring-before", "", ",'x'"}, {"substring-after", "'x',", ""},
		{"substring", "", ",1"}, {"substring", "'x',", ""}, {"substring", "'x',1,", ""}, {"translate", "", ",'a','b'"},
		{"translate", "'a','b',", ""}, {"string-join", "", ",'x'"}, {"string-join", "a,", ""}, {"matches", "", ",'x'"},
		{"replace", "", ",'x','y'"}, {"replace", "'x','y',", ""},
	} {
		f := f
		key := "fn-nest:" + f.name + "(" + f.pre + "_" + f.post + ")"
		pumpPatterns[key] = func(n int) string {
			return strings.Repeat(f.name+"("+f.pre, n) + "a" + strings.Repeat(f.post+")", n)
		}
	}
}

// cycles of the call graph each pattern drives (function names of parse.go/build.go)
var pumpCycles = map[string][]string{
	"sequence-step": {"parseStep", "parseSequence"},
	"seq-in-seq":    {"parseStep", "parseSequence", "parseRelativeLocationPath"},
	"seq-open-only": {"parseStep", "parseSequence"},
}

func cmdDeep(args []string) {
	fs := flag.NewFlagSet("deep", flag.ExitOnError)
	pat := fs.String("pattern", "", "pattern name")
	depth := fs.Int("depth", 1000, "nesting depth")
	list := fs.Bool("list", false, "list patterns")
	fs.Parse(args)
	if *list {
		var names []string
		for n := range pumpPatterns {
			names = append(names, n)
		}
		sort.Strings(names)
		b, _ := json.Marshal(map[string]interface{}{"patterns": names, "cycles": pumpCycles})
		fmt.Println(string(b))
		return
	}
	debug.SetMaxStack(64 << 20)
	f, ok := pumpPatterns[*pat]
	if !ok {
		fmt.Fprintln(os.Stderr, "unknown pattern")
		os.Exit(2)
	}
	s := f(*depth)
	res := totality(s)
	fmt.Println(res)
	if res != "ok" && res != "err" {
		os.Exit(1)
	}
}

// totality applies the C06 oracle to one input string: "ok" / "err", or a
// description of the violation.
func totality(s string) (res string) {
	defer func() {
		if r := recover(); r != nil {
			res = fmt.Sprintf("panic escaped: %v", r)
		}
	}()
	e, err := xpath.Compile(s)
	if (e == nil) == (err == nil) {
		return fmt.Sprintf("Compile returned (%v, %v): not exactly one of expression and error", e != nil, err)
	}
	e2, err2 := xpath.CompileWithNS(s, map[string]string{"p": "u1", "q": "u2"})
	if (e2 == nil) == (err2 == nil) {
		return fmt.Sprintf("CompileWithNS returned (%v, %v)", e2 != nil, err2)
	}
	e3, err3 := xpath.CompileWithNS(s, map[string]string{})
	if (e3 == nil) == (err3 == nil) {
		return fmt.Sprintf("CompileWithNS(empty map) returned (%v, %v)", e3 != nil, err3)
	}
	if m := xpath.MustCompile(s); m == nil {
		return "MustCompile returned nil"
	}
	if err == nil {
		if e.String() != s {
			return "Expr.String() differs from the input"
		}
		return "ok"
	}
	return "err"
}

// ---------------------------------------------------------------------------
// total: replay the strings TLC enumerated (character-class strings, token strings)
type totalCase struct {
	K    string   `json:"k"`
	S    string   `json:"s"`
	Toks []string `json:"toks"`
	Sep  []bool   `json:"sep"`
	Wf   string   `json:"wf"`
}

var classReps = map[byte][]string{
	'~': {"é", "中", "Ж", "ñ"},
	'^': {"\xff", "\xc3", "\xe2\x82"},
	'`': {"\x00"},
	'a': {"a", "z", "_", "Q"},
	'1': {"1", "0", "9"},
	' ': {" ", "\t", "\n", "\r", " "},
}

func concretise(s string, r *rand.Rand, variant int) string {
	var b strings.Builder
	for i := 0; i < len(s); i++ {
		reps, ok := classReps[s[i]]
		if !ok {
			b.WriteByte(s[i])
			continue
		}
		if variant == 0 {
			b.WriteString(reps[0])
		} else {
			b.WriteString(reps[r.Intn(len(reps))])
		}
	}
	return b.String()
}

func cmdTotal(args []string) {
	fs := flag.NewFlagSet("total", flag.ExitOnError)
	in := fs.String("in", "", "strings emitted by MC_Lexical (empty: only the seeded generators)")
	out := fs.String("out", "", "mismatch file")
	statsF := fs.String("stats", "", "stats file")
	seed := fs.Int64("seed", 1, "seed")
	nrand := fs.Int("random", 20000, "seeded random token strings / byte mutations")
	corpus := fs.String("corpus", "", "file with one valid expression per line to mutate")
	fs.Parse(args)
	of, _ := os.Create(*out)
	defer of.Close()
	w := bufio.NewWriter(of)
	defer w.Flush()
	r := rand.New(rand.NewSource(*seed))
	var cur atomic.Value
	var curAt atomic.Int64
	go func() {
		for {
			time.Sleep(500 * time.Millisecond)
			at := curAt.Load()
			if at != 0 && time.Now().UnixNano()-at > int64(10*time.Second) {
				fmt.Fprintf(os.Stderr, "xvh: HANG in Compile on %q\n", cur.Load())
				w.Flush()
				os.Exit(3)
			}
		}
	}()
	lines, evals, mism, accIll, okN := 0, 0, 0, 0, 0
	distinct := map[string]bool{}
	var samples []json.RawMessage
	check := func(text string, raw []byte, wf string) {
		cur.Store(text)
		curAt.Store(time.Now().UnixNano())
		res := totality(text)
		curAt.Store(0)
		evals++
		if res == "ok" {
			okN++
			distinct[text] = true
			if wf == "no" {
				accIll++
			}
		}
		if res != "ok" && res != "err" {
			tb, _ := json.Marshal(text)
			b, _ := json.Marshal(Mismatch{Line: lines, Kind: "total", Expr: text, Render: "text", Fail: "totality", Want: json.RawMessage(`"exactly one of (expression, error)"`), Got: Outcome{Msg: res}, Via: "Compile", Case: json.RawMessage(`{"text":` + string(tb) + `}`)})
			w.Write(b)
			w.WriteByte('\n')
			mism++
		}
	}
	if *in != "" {
		f, err := os.Open(*in)
		if err != nil {
			fmt.Fprintln(os.Stderr, "xvh:", err)
			os.Exit(2)
		}
		sc := bufio.NewScanner(f)
		sc.Buffer(make([]byte, 1<<20), 1<<26)
		for sc.Scan() {
			lines++
			raw := decodeLine(append([]byte(nil), sc.Bytes()...))
			var c totalCase
			if err := json.Unmarshal(raw, &c); err != nil {
				fmt.Fprintln(os.Stderr, "xvh: bad case:", err)
				os.Exit(2)
			}
			if len(samples) < 4 && lines%977 == 1 {
				samples = append(samples, raw)
			}
			switch c.K {
			case "chars":
				for v := 0; v < 3; v++ {
					t := concretise(c.S, r, v)
					wf := c.Wf
					if v > 0 {
						wf = "?"
					}
					check(t, raw, wf)
				}
			case "toks":
				pc := parseCase{Toks: c.Toks, Sep: c.Sep}
				for _, t := range spacings(&pc, lines)[:2] {
					check(t, raw, c.Wf)
				}
			}
		}
		f.Close()
	}
	// length boundaries: accepted and refused expressions whose byte length sits on / next to a power of two, ending in
	// ASCII, in a 2-, 3- or 4-byte character, in a lone continuation byte or in an invalid byte (fixed-size buffers,
	// message abbreviation, rune boundaries)
	for _, L := range []int{15, 16, 17, 31, 32, 33, 63, 64, 65, 127, 128, 129, 255, 256, 257, 258, 511, 512, 513, 1023, 1024, 1025,
		4095, 4096, 4097, 65535, 65536, 65537} {
		for _, suffix := range []string{"", "[@x", "[", "/", "|", " and", "'", ")", "[1]", "::", "("} {
			for _, tail := range []string{"", "z", "\u00e9", "\u65e5", "\U0001d11e", "\x80", "\xff"} {
				for d := -1; d <= 1; d++ {
					k := L - 2 - len(suffix) - len(tail) + d
					if k < 1 {
						continue
					}
					lines++
					check("//"+strings.Repeat("a", k)+suffix+tail, nil, "?")
				}
			}
		}
	}
	// seeded: random token strings up to 40 tokens and byte-level mutations of valid expressions
	alphabet := []string{"a", "b", "div", "and", "or", "mod", "*", "1", ".5", "'x'", "\"", "'", "/", "//", "|", "+", "-", "=", "!=", "<", "<=",
		">", ">=", "(", ")", "[", "]", ",", "@", "::", ":", ".", "..", "$", "child", "ancestor-or-self", "text", "node", "count", "p:a", "p:*",
		"not", "concat", "last", "position", "#", "!", "é", "\x00", "\xff", " ", "\n"}
	var corpusLines []string
	if *corpus != "" {
		if b, err := os.ReadFile(*corpus); err == nil {
			for _, l := range strings.Split(string(b), "\n") {
				if strings.TrimSpace(l) != "" {
					corpusLines = append(corpusLines, l)
				}
			}
		}
	}
	for i := 0; i < *nrand; i++ {
		var text string
		if len(corpusLines) > 0 && i%2 == 0 {
			bs := []byte(corpusLines[r.Intn(len(corpusLines))])
			for k := 0; k < 1+r.Intn(3) && len(bs) > 0; k++ {
				p := r.Intn(len(bs))
				switch r.Intn(4) {
				case 0:
					bs[p] = byte(r.Intn(256))
				case 1:
					bs = append(bs[:p], bs[p+1:]...)
				case 2:
					bs = append(bs[:p], append([]byte{byte(32 + r.Intn(95))}, bs[p:]...)...)
				case 3:
					bs = bs[:p]
				}
			}
			text = string(bs)
		} else {
			n := 1 + r.Intn(40)
			var b strings.Builder
			for k := 0; k < n; k++ {
				b.WriteString(alphabet[r.Intn(len(alphabet))])
				if r.Intn(3) == 0 {
					b.WriteByte(' ')
				}
			}
			text = b.String()
		}
		lines++
		check(text, nil, "?")
	}
	w.Flush()
	st := map[string]interface{}{"lines": lines, "cases": lines, "evaluations": evals, "nontrivial": okN,
		"distinct_nontrivial": len(distinct), "mismatches": mism, "by_fail": map[string]int{}, "samples": samples,
		"accepted_ill_formed": accIll}
	b, _ := json.Marshal(st)
	if *statsF != "" {
		os.WriteFile(*statsF, b, 0o644)
	}
	fmt.Printf("total: %d inputs, %d Compile rounds, %d accepted, %d ill-formed-but-accepted (observatory), %d totality violations\n", lines, evals, okN, accIll, mism)
}
