package main

import (
	"encoding/json"
	"flag"
	"fmt"
	"math/rand"
	"os"
	"reflect"
	"runtime"
	"sync"

	"github.com/antchfx/xpath"

	"xvh/gen"
	"xvh/vdoc"
)

// cmdRace runs real goroutines on shared compiled expressions.  It is meant
// to be built with -race: Go's race detector is happens-before based, so it
// reports unsynchronised conflicting accesses whether or not they overlap in
// time.  Independently of the detector every concurrent result is compared
// with the result of the same call run alone.
func cmdRace(args []string) {
	fs := flag.NewFlagSet("race", flag.ExitOnError)
	seed := fs.Int64("seed", 1, "seed")
	rounds := fs.Int("rounds", 20, "rounds per expression")
	k := fs.Int("goroutines", 8, "goroutines per round")
	out := fs.String("out", "", "result file (json)")
	fs.Parse(args)
	runtime.GOMAXPROCS(16)
	g := gen.New(*seed)
	// cold start: the very first use of the package in this process is CONCURRENT Compile of lexically diverse texts
	// (non-ASCII names, dotted / dashed names, long numbers, every token kind, namespace maps), so that anything the scanner,
	// the parser or the builder builds lazily on first use is first touched by several goroutines at once
	{
		cold := []string{"//\u00e9", "//\u65e5\u672c/@\u5c5e\u6027", "a.b-c/d_e", "child::\u00e4[1]", "translate(a, '\u00e9', 'e')", "lower-case('\u00c9')",
			"1.5 + .5 * 10 div 3 mod 2", "p:a/q:*", "concat('x', \"y\", 'z')", "//a[@b='1'][last()]/following-sibling::*[2] | /c//d",
			"matches(a, '^\u00e9+$')", "replace(a, '(\u00e9)', '$1')", "string-join(//a, '\u00b7')", "-(-a) and not(b) or c != d",
			"processing-instruction('x')", "ancestor-or-self::node()/comment()", "1e3", "$v", "a/(b, c)", "\U0001d11e"}
		var wg sync.WaitGroup
		start := make(chan struct{})
		for i := 0; i < 12; i++ {
			wg.Add(1)
			go func(i int) {
				defer wg.Done()
				defer func() { recover() }()
				<-start
				for j := range cold {
					t := cold[(i+j)%len(cold)]
					if i%3 == 0 {
						xpath.CompileWithNS(t, map[string]string{"p": "u1", "q": "u2"})
					} else if i%3 == 1 {
						xpath.CompileWithNS(t, map[string]string{"p": "u2"})
					} else {
						xpath.Compile(t)
					}
				}
			}(i)
		}
		close(start)
		wg.Wait()
	}
	exprs := []string{
		"//b", "//b[ancestor::a]", "ancestor::a = ''", "following::*", "preceding::*", "//a | //b",
		"(//b)[2]", "//b[2]", "//*[last()]", "(//b)[2] = '2'", "count(//b)", "string-join(//b, ',')",
		"string-join(//*/text(), '-')", "sum(//b)", "name(//b)", "concat(//a, //b)", "descendant::a/descendant::b",
		"//a//b", "a/(b, c)", "//b = 1", "//b[not(following-sibling::b)]", "reverse(//b)",
		"normalize-space(string(//b))", "translate(string(//c), 'x', 'y')", "contains(//c, 'x')",
		"matches(string(//b), '^[0-9]+$')", "replace(string(//c), '(x)', '$1$1')", "matches(//c, 'x|y')",
		"//b[position() = last()]", "//*[count(ancestor::*) > 1]", "//c[. = 'x' or . = '3']", "1 + count(//b) * 2",
		"substring(string(//d), 2, 1)", "lower-case(string(//d))", "boolean(//zz) or //b",
		"starts-with(//c, 'x')", "ends-with(//c, 'x')", "substring-before(//d, '1')", "substring-after(//d, '1')",
		"string-length(//d)", "normalize-space(//d)", "translate(//c, 'x', 'y')", "floor(//b)", "ceiling(//b)", "round(//b) = 1",
		"number(//b) + 1", "not(//zz)", "local-name(//b)", "namespace-uri(//b)", "//b[last()]", "//*[position() = 2]",
		"//a/b[2]", "//e/*[last()]/text()", "count(//b | //c)", "//b[c][1]", "(//b | //c)[2]", "concat(//b, '-', //c, '-', //d)",
		"floor(//b + //c)", "round(//b * 2) = 2", "string(-//b)", "number(//b + 1) > 1", "ceiling(sum(//e/*) div 2)",
		"string-length(concat(//b, //c)) + 1", "not(//b + 1 = 2)", "//*[floor(b + 1) = 2]", "matches(string(//b), 'a|ab')",
		"replace(string(//c), 'x|xy', 'z')", "replace(string(//b), '([0-9])(.?)', '$2-$1')", "replace(concat(//b, //c), '(.)(.)(.)', '$3$2$1$0')",
		"string-join(//b, replace(string(//c), '(x)', '[$1]'))",
		"//*[@a and (b or c)]", "//b[. = //e/b]", "sum(//e/*) div count(//e/*)", "string(//e/c) = '3'",
	}
	type mism struct {
		Expr string `json:"expr"`
		Op   string `json:"op"`
		Ctx  int    `json:"ctx"`
		Want string `json:"want"`
		Got  string `json:"got"`
	}
	var mu sync.Mutex
	var mismatches []mism
	calls := 0
	// the value documents of the specification (Val1) plus seeded random documents
	var val1 vdoc.Doc
	json.Unmarshal([]byte(val1JSON), &val1)
	docs := []*vdoc.Doc{&val1}
	for i := 0; i < 4; i++ {
		docs = append(docs, g.Doc(20))
	}
	show := func(o Outcome) string { b, _ := json.Marshal(o); return string(b) }
	for _, text := range exprs {
		shared, err := xpath.Compile(text)
		if err != nil {
			fmt.Fprintf(os.Stderr, "xvh race: %s does not compile: %v\n", text, err)
			os.Exit(2)
		}
		for r := 0; r < *rounds; r++ {
			d := docs[r%len(docs)]
			// sequential reference on a fresh compile
			type job struct {
				op  string
				ctx int
			}
			jobs := make([]job, *k)
			want := make([]Outcome, *k)
			for i := range jobs {
				jobs[i] = job{[]string{"Select", "Evaluate"}[g.R.Intn(2)], 1 + g.R.Intn(d.Len())}
			}
			// the sequential reference (a fresh compile per call) is computed AFTER the concurrent phase in the first
			// round of an expression, so that anything the engine initialises or memoises on first use (per expression
			// text, per pattern, per template) is first touched by several goroutines at once
			reference := func() {
				for i := range jobs {
					fresh, _ := xpath.Compile(text)
					if jobs[i].op == "Select" {
						want[i] = doSelect(fresh, d, jobs[i].ctx, false)
					} else {
						want[i] = doEvaluate(fresh, d, jobs[i].ctx, false)
					}
				}
			}
			if r > 0 {
				reference()
			}
			got := make([]Outcome, *k)
			var wg sync.WaitGroup
			start := make(chan struct{})
			for i := range jobs {
				wg.Add(1)
				go func(i int) {
					defer wg.Done()
					<-start
					if jobs[i].op == "Select" {
						got[i] = doSelect(shared, d, jobs[i].ctx, false)
					} else {
						got[i] = doEvaluate(shared, d, jobs[i].ctx, false)
					}
				}(i)
			}
			// concurrent Compile of the same and of other expressions
			for c := 0; c < 2; c++ {
				wg.Add(1)
				go func(c int) {
					defer wg.Done()
					<-start
					xpath.Compile(exprs[(r+c)%len(exprs)])
					xpath.Compile(text)
				}(c)
			}
			close(start)
			wg.Wait()
			if r == 0 {
				reference()
			}
			for i := range jobs {
				calls++
				if !reflect.DeepEqual(want[i], got[i]) {
					mu.Lock()
					mismatches = append(mismatches, mism{text, jobs[i].op, jobs[i].ctx, show(want[i]), show(got[i])})
					mu.Unlock()
				}
			}
		}
	}
	_ = rand.Int
	res := map[string]interface{}{"expressions": len(exprs), "rounds": *rounds, "goroutines": *k, "calls": calls, "mismatches": mismatches}
	b, _ := json.MarshalIndent(res, "", " ")
	if *out != "" {
		os.WriteFile(*out, b, 0o644)
	}
	fmt.Printf("race: %d expressions x %d rounds x %d goroutines = %d concurrent calls, %d differ from the sequential result\n",
		len(exprs), *rounds, *k, calls, len(mismatches))
}

const val1JSON = `[["root","",0,""],["elem","a",1,""],["attr","a",2,"1"],["attr","b",2,"x"],["elem","b",2,""],["text","",5,"1"],["elem","b",2,""],["text","",7,"2"],["elem","c",2,""],["text","",9,"x"],["elem","c",2,""],["elem","d",2,""],["text","",12," 1 "],["elem","e",2,""],["elem","b",14,""],["text","",15,"2"],["elem","c",14,""],["text","",17,"3"]]`
