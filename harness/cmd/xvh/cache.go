package main

import (
	"bufio"
	"encoding/json"
	"flag"
	"fmt"
	"math/rand"
	"os"
	"regexp"
	"sync"
	"sync/atomic"

	"github.com/antchfx/xpath"

	"xvh/vdoc"
)

// abstract key names of the specification -> real patterns
var keyPattern = map[string]string{"k1": "a+", "k2": "b|c", "k3": "^x$", "k4": "[0-9]", "bad": "("}

type cacheSeq struct {
	K    string   `json:"k"`
	Cap  int      `json:"cap"`
	Keys []string `json:"keys"`
}

type cacheEv struct {
	Key    string `json:"key"`
	Ok     bool   `json:"ok"`
	Loaded bool   `json:"loaded"`
	Val    string `json:"val"`
	Size   int    `json:"size"`
	Resets int    `json:"resets"`
	Via    string `json:"via,omitempty"`
}

func patternKey(re interface{}) string {
	if r, ok := re.(*regexp.Regexp); ok && r != nil {
		for k, p := range keyPattern {
			if p == r.String() {
				return k
			}
		}
		if t := r.String(); len(t) > 3 && t[0] == '^' && t[1] == 'n' && t[len(t)-1] == '$' {
			return t[1 : len(t)-1] // synthetic keys n0, n1, ... of the long runs
		}
		return "?" + r.String()
	}
	return ""
}

// cmdCache runs TLC-enumerated key sequences on a real loading cache, once
// through the hook (direct get) and once through matches() with a
// client-installed RegexpCache, and records one event per get.
func cmdCache(args []string) {
	fs := flag.NewFlagSet("cache", flag.ExitOnError)
	in := fs.String("in", "", "key sequences emitted by TLC")
	out := fs.String("out", "", "trace file")
	long := fs.Bool("long", false, "append long runs on capacities 16, 17 and 33 (two and more resets)")
	fs.Parse(args)
	f, err := os.Open(*in)
	if err != nil {
		fmt.Fprintln(os.Stderr, "xvh:", err)
		os.Exit(2)
	}
	defer f.Close()
	of, _ := os.Create(*out)
	defer of.Close()
	w := bufio.NewWriter(of)
	defer w.Flush()
	var d vdoc.Doc
	json.Unmarshal([]byte(val1JSON), &d)
	sc := bufio.NewScanner(f)
	n := 0
	var seqs []cacheSeq
	for sc.Scan() {
		var cs cacheSeq
		if err := json.Unmarshal(decodeLine(append([]byte(nil), sc.Bytes()...)), &cs); err != nil {
			fmt.Fprintln(os.Stderr, "xvh: bad sequence:", err)
			os.Exit(2)
		}
		seqs = append(seqs, cs)
	}
	if *long {
		// capacities the enumerated sequences cannot fill: fill the cache, overflow it, come back to the keys stored
		// just before and just after each reset, a failing key in between; three rounds
		for _, capacity := range []int{16, 17, 33} {
			var ks []string
			next := 0
			for round := 0; round < 3; round++ {
				first := next
				for i := 0; i < capacity+2; i++ {
					ks = append(ks, fmt.Sprintf("n%d", next))
					next++
				}
				ks = append(ks, "bad")
				for _, back := range []int{next - 3, next - 2, next - 1, first, next - 2, first + 1} {
					ks = append(ks, fmt.Sprintf("n%d", back))
				}
			}
			seqs = append(seqs, cacheSeq{K: "cacheseq", Cap: capacity, Keys: ks})
		}
	}
	pattern := func(k string) string {
		if p, ok := keyPattern[k]; ok {
			return p
		}
		return "^" + k + "$"
	}
	for _, cs := range seqs {
		for _, via := range []string{"get", "expr"} {
			loads := 0
			load := func(key interface{}) (interface{}, error) {
				loads++
				return regexp.Compile(key.(string))
			}
			c := xpath.NewLoadingCache(load, cs.Cap)
			var evs []cacheEv
			if via == "expr" {
				xpath.RegexpCache = c
			}
			for _, k := range cs.Keys {
				before := loads
				ev := cacheEv{Key: k, Via: via}
				if via == "get" {
					v, err := xpath.VerifCacheGet(c, pattern(k))
					ev.Ok = err == nil
					ev.Val = patternKey(v)
				} else {
					// the pattern is computed (concat) so that Compile does not pre-load it
					ex, err := xpath.Compile("matches('zz', concat('" + pattern(k) + "', ''))")
					if err != nil {
						fmt.Fprintln(os.Stderr, "xvh: cache expr does not compile:", err)
						os.Exit(2)
					}
					o := doEvaluate(ex, &d, 1, false)
					ev.Ok = o.Panic == ""
					if ev.Ok {
						ev.Val = k // the value is not observable through matches(); identity is checked on the get path
					}
					if o.Panic != "" && o.Panic != "deliberate" {
						ev.Val = "panic:" + o.Panic
					}
				}
				ev.Loaded = loads > before
				ev.Size, _, ev.Resets = xpath.VerifCacheStats(c)
				evs = append(evs, ev)
			}
			b, _ := json.Marshal(map[string]interface{}{"k": "cacheseq", "cap": cs.Cap, "via": via, "evs": evs})
			w.Write(b)
			w.WriteByte('\n')
			n++
		}
	}
	fmt.Printf("cache: %d runs recorded\n", n)
}

type concCall struct {
	G      int    `json:"g"`
	Key    string `json:"key"`
	Start  int64  `json:"start"`
	End    int64  `json:"end"`
	Ok     bool   `json:"ok"`
	Loaded bool   `json:"loaded"`
	Val    string `json:"val"`
}

// cmdCacheConc: goroutines hammer one cache; each call is stamped with a
// global logical clock at start and end; per-key load counters tell a call
// that NO load of its key ran while it was in flight (a certain hit); a
// sampler reads the size under the read lock.  Meant to be built with -race.
func cmdCacheConc(args []string) {
	fs := flag.NewFlagSet("cacheconc", flag.ExitOnError)
	seed := fs.Int64("seed", 1, "seed")
	runs := fs.Int("runs", 50, "number of runs")
	out := fs.String("out", "", "trace file")
	fs.Parse(args)
	of, _ := os.Create(*out)
	defer of.Close()
	w := bufio.NewWriter(of)
	defer w.Flush()
	rnd := rand.New(rand.NewSource(*seed))
	keys := []string{"k1", "k2", "k3", "k4", "bad"}
	idx := map[string]int{}
	for i, k := range keys {
		idx[keyPattern[k]] = i
	}
	ncalls := 0
	for r := 0; r < *runs; r++ {
		capa := r % 4
		G := 2 + rnd.Intn(7)
		N := 5 + rnd.Intn(20)
		var clock int64
		var loads [8]int64
		shared := xpath.NewLoadingCache(func(key interface{}) (interface{}, error) {
			atomic.AddInt64(&loads[idx[key.(string)]], 1)
			return regexp.Compile(key.(string))
		}, capa)
		calls := make([][]concCall, G)
		var samples []int
		stop := make(chan struct{})
		var wg, swg sync.WaitGroup
		swg.Add(1)
		go func() {
			defer swg.Done()
			for {
				select {
				case <-stop:
					return
				default:
					n, _, _ := xpath.VerifCacheStats(shared)
					if len(samples) < 200 {
						samples = append(samples, n)
					}
				}
			}
		}()
		start := make(chan struct{})
		for g := 0; g < G; g++ {
			wg.Add(1)
			seq := make([]string, N)
			for i := range seq {
				seq[i] = keys[rnd.Intn(len(keys))]
			}
			go func(g int, seq []string) {
				defer wg.Done()
				<-start
				for _, k := range seq {
					c := concCall{G: g, Key: k}
					pat := keyPattern[k]
					c.Start = atomic.AddInt64(&clock, 1)
					before := atomic.LoadInt64(&loads[idx[pat]])
					v, err := xpath.VerifCacheGet(shared, pat)
					after := atomic.LoadInt64(&loads[idx[pat]])
					c.End = atomic.AddInt64(&clock, 1)
					c.Ok = err == nil
					c.Val = patternKey(v)
					// loaded = "some load of this key ran while the call was in flight";
					// false is therefore a certain hit
					c.Loaded = after > before
					calls[g] = append(calls[g], c)
				}
			}(g, seq)
		}
		close(start)
		wg.Wait()
		close(stop)
		swg.Wait()
		var all []concCall
		for _, cs := range calls {
			all = append(all, cs...)
		}
		ncalls += len(all)
		if samples == nil {
			samples = []int{}
		}
		b, _ := json.Marshal(map[string]interface{}{"k": "cacheconc", "cap": capa, "calls": all, "samples": samples})
		w.Write(b)
		w.WriteByte('\n')
	}
	fmt.Printf("cacheconc: %d runs, %d calls recorded\n", *runs, ncalls)
}
