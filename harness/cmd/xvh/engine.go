package main

import (
	"fmt"
	"math"
	"os"
	"runtime"
	"strconv"
	"strings"

	"github.com/antchfx/xpath"

	"xvh/vdoc"
	"xvh/xast"
)

// Outcome of one engine call.
type Outcome struct {
	// Panic is "" when the call returned; otherwise the class of the panic:
	// "runtime" (runtime.Error), "deliberate" (an error value created by
	// the package), "other".
	Panic string `json:"panic,omitempty"`
	Msg   string `json:"msg,omitempty"`
	Top   string `json:"top,omitempty"` // top xpath frame of the panic

	IDs []int  `json:"ids,omitempty"` // node-set results in delivery order
	Val *Value `json:"val,omitempty"` // scalar results
	// Typ is the dynamic type name of an Evaluate result that is none of the
	// documented types.
	Typ string `json:"typ,omitempty"`
	// Runaway: the iterator delivered far more nodes than the document has.
	Runaway bool `json:"runaway,omitempty"`
}

// Value is XValue's tagged value in JSON.
type Value struct {
	T string      `json:"t"`           // b s n ns
	V interface{} `json:"v,omitempty"` // bool | string | xast.Num | []int
}

func classifyPanic(r interface{}) (class, msg, top string) {
	msg = fmt.Sprint(r)
	// find the innermost frame inside the xpath package
	pcs := make([]uintptr, 64)
	n := runtime.Callers(3, pcs)
	frames := runtime.CallersFrames(pcs[:n])
	for {
		f, more := frames.Next()
		if strings.Contains(f.Function, "github.com/antchfx/xpath.") && top == "" {
			top = f.Function
		}
		if !more {
			break
		}
	}
	switch x := r.(type) {
	case runtime.Error:
		return "runtime", msg, top
	case error:
		// errors created deliberately by the package are plain
		// *errors.errorString / *fmt.wrapError values; errors passed
		// through from the standard library (strconv.NumError ...) are
		// data-dependent failures, not argument-type complaints.
		t := fmt.Sprintf("%T", x)
		if t == "*errors.errorString" || t == "*fmt.wrapError" {
			return "deliberate", msg, top
		}
		return "other:" + t, msg, top
	}
	return "other:" + fmt.Sprintf("%T", r), msg, top
}

func guard(o *Outcome) {
	if r := recover(); r != nil {
		o.Panic, o.Msg, o.Top = classifyPanic(r)
	}
}

// navAt returns the navigator flavour at node id.
func navAt(d *vdoc.Doc, id int, plain bool) xpath.NodeNavigator {
	if plain {
		return d.AtPlain(id)
	}
	return d.At(id)
}

// runawayLimit bounds the number of nodes one iterator may deliver before the
// harness gives up on it (duplicates are legitimate for multi-step paths, so
// the bound is far above any document size).
const runawayLimit = 300000

// drain collects the ids an iterator delivers, with at most extra further
// MoveNext calls after the first false (which must all be false: reported
// through the second result).
func drain(it *xpath.NodeIterator, limit int) (ids []int, runaway bool) {
	for it.MoveNext() {
		ids = append(ids, vdoc.IDOf(it.Current()))
		if len(ids) > limit {
			return ids, true
		}
	}
	return ids, false
}

// pastEnd is the number of further MoveNext calls made after an iterator has reported its end (C12: it must keep
// answering false); set through VERIF_PAST_END by the checks of the property that claims it.
var pastEnd = func() int {
	n, _ := strconv.Atoi(os.Getenv("VERIF_PAST_END"))
	return n
}()

// probePastEnd reports a revived iterator as an (undeliberate) failure of the call.
func probePastEnd(it *xpath.NodeIterator, o *Outcome) {
	if o.Runaway || o.Panic != "" {
		return
	}
	for i := 1; i <= pastEnd; i++ {
		if it.MoveNext() {
			o.Panic, o.Msg = "revived", fmt.Sprintf("MoveNext returned true again on call %d after it had returned false", i)
			return
		}
	}
}

// doSelect runs expr.Select from node ctx.
func doSelect(e *xpath.Expr, d *vdoc.Doc, ctx int, plain bool) (o Outcome) {
	defer guard(&o)
	it := e.Select(navAt(d, ctx, plain))
	o.IDs, o.Runaway = drain(it, runawayLimit)
	if o.IDs == nil {
		o.IDs = []int{}
	}
	probePastEnd(it, &o)
	return
}

func numValue(f float64) *Value {
	n := xast.Num{}
	switch {
	case math.IsNaN(f):
		n.C = "nan"
	case math.IsInf(f, 0):
		n.C = "inf"
		n.Neg = f < 0
	default:
		n.C = "fin"
		n.Neg = math.Signbit(f)
		a := math.Abs(f)
		// a = m * 2^e exactly
		fr, ex := math.Frexp(a) // a = fr * 2^ex, fr in [0.5,1)
		m := int64(fr * (1 << 53))
		e := ex - 53
		for m != 0 && m%2 == 0 {
			m /= 2
			e++
		}
		if a == 0 {
			m, e = 0, 0
		}
		if e >= 0 {
			if e > 62 || m > (math.MaxInt64>>uint(e)) {
				n.C = "big" // outside the model's range
			} else {
				n.N = m << uint(e)
			}
		} else {
			n.N = m
			n.K = -e
		}
	}
	return &Value{T: "n", V: n}
}

// doEvaluate runs expr.Evaluate from node ctx.
func doEvaluate(e *xpath.Expr, d *vdoc.Doc, ctx int, plain bool) (o Outcome) {
	defer guard(&o)
	v := e.Evaluate(navAt(d, ctx, plain))
	switch x := v.(type) {
	case bool:
		o.Val = &Value{T: "b", V: x}
	case float64:
		o.Val = numValue(x)
	case string:
		o.Val = &Value{T: "s", V: x}
	case *xpath.NodeIterator:
		o.IDs, o.Runaway = drain(x, runawayLimit)
		if o.IDs == nil {
			o.IDs = []int{}
		}
		probePastEnd(x, &o)
	default:
		o.Typ = fmt.Sprintf("%T", v)
	}
	return
}

func compile(s string, ns map[string]string) (e *xpath.Expr, err error, o Outcome) {
	defer guard(&o)
	if ns != nil {
		e, err = xpath.CompileWithNS(s, ns)
	} else {
		e, err = xpath.Compile(s)
	}
	return
}
