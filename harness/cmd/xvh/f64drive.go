package main

import (
	"bufio"
	"encoding/json"
	"fmt"
	"math"
	"math/rand"
	"strconv"
	"strings"

	"github.com/antchfx/xpath"
)

// Flow B over the exact binary64 model (XFExpr.tla / XFBatch.tla): seeded random expressions in the record form of
// XFExpr, run on the real engine; the reply is recorded with the exact bit pattern of a number.

type fx map[string]interface{}

func fxText(e fx) string {
	switch e["t"] {
	case "lit":
		return e["s"].(string)
	case "node":
		return "/r/v" + strconv.Itoa(e["i"].(int))
	case "all":
		return "/r/*"
	case "bin":
		return "(" + fxText(e["l"].(fx)) + " " + e["op"].(string) + " " + fxText(e["r"].(fx)) + ")"
	case "cmp":
		return fxText(e["l"].(fx)) + " " + e["op"].(string) + " " + fxText(e["r"].(fx))
	case "neg":
		return "-" + fxText(e["e"].(fx))
	case "fn":
		return e["f"].(string) + "(" + fxText(e["a"].(fx)) + ")"
	case "numstr":
		return "number('" + e["s"].(string) + "')"
	case "sub2":
		return "substring('" + e["s"].(string) + "', " + fxText(e["p"].(fx)) + ")"
	case "sub3":
		return "substring('" + e["s"].(string) + "', " + fxText(e["p"].(fx)) + ", " + fxText(e["l"].(fx)) + ")"
	case "cat":
		return "concat(string(" + fxText(e["l"].(fx)) + "), '|', string(" + fxText(e["r"].(fx)) + "))"
	case "slen":
		return "string-length(string(" + fxText(e["a"].(fx)) + "))"
	case "pred":
		return "/r/*[" + fxText(e["c"].(fx)) + "]"
	case "dot":
		return "."
	}
	panic("fxText: unknown node")
}

func digits(r *rand.Rand, n int) string {
	b := make([]byte, n)
	for i := range b {
		b[i] = byte('0' + r.Intn(10))
	}
	return string(b)
}

var f64Special = []string{"0", "1", "2", "0.5", "0.1", "0.2", "0.3", "9007199254740992", "9007199254740993", "9223372036854775807",
	"9223372036854775808", "18446744073709551615", "18446744073709551616", "4294967296", "2147483648", "999999.9999999999",
	"1000000", "0.000001", "0.49999999999999994", "1.5", "2.5", "3.5", "100000000000000000000", "0.1000000000000000055511151231257827"}

// unsigned decimal numeral: 1-20 integer digits and 0-20 fraction digits, or one of the special values
func f64Numeral(r *rand.Rand) string {
	switch r.Intn(10) {
	case 0, 1:
		return f64Special[r.Intn(len(f64Special))]
	case 2:
		return "." + digits(r, 1+r.Intn(18))
	case 3:
		return digits(r, 1+r.Intn(20)) + "."
	}
	s := strconv.Itoa(1+r.Intn(9)) + digits(r, r.Intn(20))
	if r.Intn(3) == 0 {
		s = strconv.Itoa(r.Intn(10))
	}
	if r.Intn(2) == 0 {
		s += "." + digits(r, 1+r.Intn(20))
	}
	return s
}

func f64Val(r *rand.Rand) string {
	switch r.Intn(12) {
	case 0:
		return []string{"abc", "", "1e3", "0x1F", "--1", "1.2.3", "+5", "Infinity", "NaN", ".", "-", "1 2"}[r.Intn(12)]
	case 1:
		return " " + f64Numeral(r) + "\n"
	case 2, 3:
		return "-" + f64Numeral(r)
	}
	return f64Numeral(r)
}

var arithOps = []string{"+", "-", "*", "div", "mod"}
var cmpOps = []string{"=", "!=", "<", "<=", ">", ">="}

// number-typed expression; bareNS: a bare node-set may stand here (an operand the engine converts with number())
func f64Num(r *rand.Rand, depth int, bareNS bool) fx {
	if depth <= 0 || r.Intn(4) == 0 {
		k := r.Intn(10)
		switch {
		case k < 5 || (!bareNS && k < 8):
			return fx{"t": "lit", "s": f64Numeral(r)}
		case k < 8:
			return fx{"t": "node", "i": 1 + r.Intn(3)}
		case k == 8:
			return fx{"t": "fn", "f": "number", "a": fx{"t": "node", "i": 1 + r.Intn(3)}}
		default:
			if r.Intn(4) == 0 {
				return fx{"t": "fn", "f": "sum", "a": fx{"t": "all"}}
			}
			return fx{"t": "numstr", "s": f64Val(r)}
		}
	}
	switch r.Intn(8) {
	case 0:
		return fx{"t": "neg", "e": f64Num(r, depth-1, true)}
	case 1:
		return fx{"t": "fn", "f": []string{"floor", "ceiling", "number"}[r.Intn(3)], "a": f64Num(r, depth-1, true)}
	}
	op := arithOps[r.Intn(4)]
	if r.Intn(12) == 0 {
		op = "mod" // claimed for non-negative integers only: mostly outside the fragment
	}
	return fx{"t": "bin", "op": op, "l": f64Num(r, depth-1, true), "r": f64Num(r, depth-1, true)}
}

func f64Expr(r *rand.Rand) fx {
	switch r.Intn(10) {
	case 0, 1, 2:
		return f64Num(r, 1+r.Intn(3), false)
	case 3, 4:
		l, rr := f64Num(r, r.Intn(3), true), f64Num(r, r.Intn(3), true)
		if r.Intn(5) == 0 {
			l = fx{"t": "all"}
		}
		return fx{"t": "cmp", "op": cmpOps[r.Intn(6)], "l": l, "r": rr}
	case 5:
		c := fx{"t": "cmp", "op": cmpOps[r.Intn(6)], "l": fx{"t": "dot"}, "r": f64Num(r, r.Intn(3), false)}
		if r.Intn(2) == 0 {
			c["l"], c["r"] = c["r"], c["l"]
		}
		return fx{"t": "pred", "c": c}
	case 6:
		return fx{"t": "fn", "f": "string", "a": f64Num(r, 1+r.Intn(2), false)}
	case 7:
		s := []string{"12345", "abcdefghijkl", "", "x"}[r.Intn(4)]
		if r.Intn(2) == 0 {
			return fx{"t": "sub2", "s": s, "p": f64Num(r, r.Intn(3), false)}
		}
		return fx{"t": "sub3", "s": s, "p": f64Num(r, r.Intn(3), false), "l": f64Num(r, r.Intn(3), false)}
	case 8:
		return fx{"t": "cat", "l": f64Num(r, r.Intn(3), false), "r": f64Num(r, r.Intn(3), false)}
	}
	return fx{"t": "slen", "a": f64Num(r, 1+r.Intn(2), false)}
}

func f64Canon(v float64) fx {
	switch {
	case math.IsNaN(v):
		return fx{"t": "n", "c": "nan", "neg": false, "m": []uint64{}, "e": 0}
	case math.IsInf(v, 0):
		return fx{"t": "n", "c": "inf", "neg": v < 0, "m": []uint64{}, "e": 0}
	}
	bits := math.Float64bits(v)
	neg := bits>>63 == 1
	exp := int(bits>>52) & 0x7ff
	m := bits & (1<<52 - 1)
	e := -1074
	if exp != 0 {
		m |= 1 << 52
		e = exp - 1075
	}
	limbs := []uint64{}
	for ; m != 0; m >>= 15 {
		limbs = append(limbs, m&0x7fff)
	}
	if len(limbs) == 0 {
		e = 0
	}
	return fx{"t": "n", "c": "fin", "neg": neg, "m": limbs, "e": e}
}

func driveF64(r *rand.Rand, n int, w *bufio.Writer) int {
	events := 0
	for i := 0; i < n; i++ {
		vals := []string{f64Val(r), f64Val(r), f64Val(r)}
		if r.Intn(2) == 0 { // sum() is claimed over numeric nodes: often make all three plain numerals
			for k := range vals {
				vals[k] = strings.TrimPrefix(f64Numeral(r), ".")
				if vals[k] == "" {
					vals[k] = "0"
				}
			}
		}
		d, vids := f64Doc(vals)
		idx := map[int]int{}
		for k, id := range vids {
			idx[id] = k + 1
		}
		e := f64Expr(r)
		text := fxText(e)
		ev := fx{"x": text, "e": e, "vals": vals}
		ex, err, co := compile(text, nil)
		if err != nil || ex == nil || co.Panic != "" {
			ev["panic"] = "compile"
			if err != nil {
				ev["msg"] = err.Error()
			}
		} else {
			var o Outcome
			var v interface{}
			func() {
				defer guard(&o)
				v = ex.Evaluate(d.At(1 + r.Intn(2)))
			}()
			switch x := v.(type) {
			case float64:
				ev["got"] = f64Canon(x)
			case bool:
				ev["got"] = fx{"t": "b", "v": x}
			case string:
				ev["got"] = fx{"t": "s", "v": x}
			case *xpath.NodeIterator:
				ids, _ := drain(x, runawayLimit)
				out := []int{}
				for _, id := range ids {
					out = append(out, idx[id]) // 0 for a node that is no child v_i
				}
				ev["got"] = fx{"t": "ns", "v": out}
			default:
				ev["panic"] = "type"
				ev["msg"] = fmt.Sprintf("%T", v)
			}
			if o.Panic != "" {
				delete(ev, "got")
				ev["panic"] = o.Panic
				ev["msg"] = o.Msg
			}
		}
		enc := json.NewEncoder(w) // one line per event; '<' and '>' stay readable
		enc.SetEscapeHTML(false)
		enc.Encode(ev)
		events++
	}
	return events
}
