package main

import (
	"bufio"
	"encoding/json"
	"flag"
	"fmt"
	"os"
	"regexp"

	"xvh/vdoc"
)

type regexCase struct {
	S     string `json:"s"`
	P     string `json:"p"`
	R     string `json:"r"`
	Valid bool   `json:"valid"`
	Nsub  int    `json:"nsub"`
	Tpl   string `json:"tpl"`
}

// cmdRegex replays the (subject, pattern, template) triples TLC enumerated.
// The environment oracle is Go's regexp package applied to the template the
// SPECIFICATION rewrote; the engine's matches()/replace() must agree, a
// constant invalid pattern must be rejected by Compile, a computed invalid
// pattern must abort evaluation with a deliberate error.
func cmdRegex(args []string) {
	fs := flag.NewFlagSet("regex", flag.ExitOnError)
	in := fs.String("in", "", "cases emitted by XRegex")
	out := fs.String("out", "", "mismatch file")
	statsF := fs.String("stats", "", "stats file")
	fs.Parse(args)
	f, err := os.Open(*in)
	if err != nil {
		fmt.Fprintln(os.Stderr, "xvh:", err)
		os.Exit(2)
	}
	defer f.Close()
	of, _ := os.Create(*out)
	defer of.Close()
	w := bufio.NewWriter(of)
	defer w.Flush()
	var d vdoc.Doc
	json.Unmarshal([]byte(val1JSON), &d)
	lines, evals, nontriv, mism := 0, 0, 0, 0
	distinct := map[string]bool{}
	var samples []json.RawMessage
	report := func(line int, raw []byte, expr, fail string, want interface{}, got Outcome) {
		wb, _ := json.Marshal(want)
		b, _ := json.Marshal(Mismatch{Line: line, Kind: "regex", Expr: expr, Render: "text", Ctx: 1, Fail: fail, Want: wb, Got: got, Via: "Evaluate", Case: raw})
		w.Write(b)
		w.WriteByte('\n')
		mism++
	}
	sc := bufio.NewScanner(f)
	for sc.Scan() {
		lines++
		raw := decodeLine(append([]byte(nil), sc.Bytes()...))
		var c regexCase
		if err := json.Unmarshal(raw, &c); err != nil {
			fmt.Fprintln(os.Stderr, "xvh: bad regex case:", err)
			os.Exit(2)
		}
		if len(samples) < 3 {
			samples = append(samples, raw)
		}
		re, rerr := regexp.Compile(c.P)
		if (rerr == nil) != c.Valid || (rerr == nil && re.NumSubexp() != c.Nsub) {
			fmt.Fprintf(os.Stderr, "xvh: the specification's pattern table disagrees with the environment for %q (valid %v nsub %d)\n", c.P, c.Valid, c.Nsub)
			os.Exit(2)
		}
		q := func(s string) string { return "'" + s + "'" }
		// --- matches with a constant pattern
		text := "matches(" + q(c.S) + ", " + q(c.P) + ")"
		ex, cerr, co := compile(text, nil)
		evals++
		if !c.Valid {
			if cerr == nil || co.Panic != "" {
				report(lines, raw, text, "compile-accepted-invalid-pattern", "compile error", co)
			}
		} else if cerr != nil || ex == nil {
			co.Msg = fmt.Sprint(cerr)
			report(lines, raw, text, "compile", "ok", co)
		} else {
			o := doEvaluate(ex, &d, 1, false)
			want := re.MatchString(c.S)
			if want {
				nontriv++
				distinct["m:"+c.S+"/"+c.P] = true
			}
			if o.Panic != "" {
				report(lines, raw, text, "panic:"+o.Panic, want, o)
			} else if o.Val == nil || o.Val.T != "b" || o.Val.V != want {
				report(lines, raw, text, "value", want, o)
			}
		}
		// --- replace with a constant pattern
		text = "replace(" + q(c.S) + ", " + q(c.P) + ", " + q(c.R) + ")"
		ex, cerr, co = compile(text, nil)
		evals++
		if !c.Valid {
			if cerr == nil || co.Panic != "" {
				report(lines, raw, text, "compile-accepted-invalid-pattern", "compile error", co)
			}
		} else if cerr != nil || ex == nil {
			co.Msg = fmt.Sprint(cerr)
			report(lines, raw, text, "compile", "ok", co)
		} else {
			o := doEvaluate(ex, &d, 1, false)
			want := re.ReplaceAllString(c.S, c.Tpl)
			if want != c.S {
				nontriv++
				distinct["r:"+c.S+"/"+c.P+"/"+c.R] = true
			}
			if o.Panic != "" {
				report(lines, raw, text, "panic:"+o.Panic, want, o)
			} else if o.Val == nil || o.Val.T != "s" || o.Val.V != want {
				report(lines, raw, text, "value", want, o)
			}
		}
		// --- the subject as a node-set: an empty node-set converts to the empty string
		if c.S == "" && c.Valid {
			for _, text := range []string{"matches(zz, " + q(c.P) + ")", "replace(zz, " + q(c.P) + ", " + q(c.R) + ")"} {
				ex, cerr, co = compile(text, nil)
				evals++
				if cerr != nil || ex == nil {
					co.Msg = fmt.Sprint(cerr)
					report(lines, raw, text, "compile", "ok", co)
					continue
				}
				o := doEvaluate(ex, &d, 2, false)
				var want interface{} = re.MatchString("")
				wt := "b"
				if text[0] == 'r' {
					want, wt = re.ReplaceAllString("", c.Tpl), "s"
				}
				if o.Panic != "" {
					report(lines, raw, text, "panic:"+o.Panic, want, o)
				} else if o.Val == nil || o.Val.T != wt || o.Val.V != want {
					report(lines, raw, text, "value", want, o)
				}
			}
		}
		// --- computed pattern: evaluation-time behaviour
		text = "matches(" + q(c.S) + ", concat(" + q(c.P) + ", ''))"
		ex, cerr, co = compile(text, nil)
		evals++
		if cerr != nil || ex == nil {
			co.Msg = fmt.Sprint(cerr)
			report(lines, raw, text, "compile", "ok", co)
		} else {
			o := doEvaluate(ex, &d, 1, false)
			if !c.Valid {
				if o.Panic != "deliberate" {
					report(lines, raw, text, "invalid-pattern-not-a-deliberate-error", "deliberate error", o)
				}
			} else if o.Panic != "" {
				report(lines, raw, text, "panic:"+o.Panic, re.MatchString(c.S), o)
			} else if o.Val == nil || o.Val.T != "b" || o.Val.V != re.MatchString(c.S) {
				report(lines, raw, text, "value", re.MatchString(c.S), o)
			}
		}
	}
	w.Flush()
	st := map[string]interface{}{"lines": lines, "cases": lines, "evaluations": evals, "nontrivial": nontriv,
		"distinct_nontrivial": len(distinct), "mismatches": mism, "by_fail": map[string]int{}, "samples": samples}
	b, _ := json.Marshal(st)
	if *statsF != "" {
		os.WriteFile(*statsF, b, 0o644)
	}
	fmt.Printf("regex: %d cases, %d evaluations, %d mismatches\n", lines, evals, mism)
}
