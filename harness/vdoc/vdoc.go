// Package vdoc is the harness-owned document and NodeNavigator the real
// engine is run against.  It is a direct transcription of XDoc.tla: a
// document is a list of node records in document order, the index (1-based)
// is the node identity, and the cursor operations are the Mv* functions of
// the specification.  It deliberately shares no code with the repository's
// test navigator.
package vdoc

import (
	"encoding/json"
	"fmt"

	"github.com/antchfx/xpath"
)

// Node is one node record (XDoc.Node).
type Node struct {
	K  string // root elem attr text comment
	N  string // local name
	P  int    // parent id, 0 for the root
	V  string // own value
	Px string // prefix
	Ns string // namespace URI

	kids, attrs []int
	prev, next  int // siblings (0 = none); attributes have none
	sv          string
}

// Doc is a document; Nodes[0] is unused so that ids are 1-based.
type Doc struct {
	Nodes []Node
}

// UnmarshalJSON reads the specification's DocCode: [[k,n,p,v,px,ns],...].
func (d *Doc) UnmarshalJSON(b []byte) error {
	var rows [][]interface{}
	if err := json.Unmarshal(b, &rows); err != nil {
		return err
	}
	d.Nodes = make([]Node, len(rows)+1)
	for i, r := range rows {
		if len(r) < 4 {
			return fmt.Errorf("doc row %d too short", i)
		}
		n := Node{}
		n.K, _ = r[0].(string)
		n.N, _ = r[1].(string)
		if f, ok := r[2].(float64); ok {
			n.P = int(f)
		}
		n.V, _ = r[3].(string)
		if len(r) > 4 {
			n.Px, _ = r[4].(string)
		}
		if len(r) > 5 {
			n.Ns, _ = r[5].(string)
		}
		d.Nodes[i+1] = n
	}
	return d.link()
}

// MarshalJSON writes the DocCode.
func (d *Doc) MarshalJSON() ([]byte, error) {
	rows := make([][]interface{}, 0, len(d.Nodes))
	for i := 1; i < len(d.Nodes); i++ {
		n := d.Nodes[i]
		rows = append(rows, []interface{}{n.K, n.N, n.P, n.V, n.Px, n.Ns})
	}
	return json.Marshal(rows)
}

// Len is the number of nodes.
func (d *Doc) Len() int { return len(d.Nodes) - 1 }

func (d *Doc) link() error {
	if d.Len() < 1 || d.Nodes[1].K != "root" || d.Nodes[1].P != 0 {
		return fmt.Errorf("node 1 must be the root")
	}
	for i := 2; i < len(d.Nodes); i++ {
		n := &d.Nodes[i]
		if n.P < 1 || n.P >= i {
			return fmt.Errorf("node %d: bad parent %d", i, n.P)
		}
		p := &d.Nodes[n.P]
		if n.K == "attr" {
			p.attrs = append(p.attrs, i)
		} else {
			if len(p.kids) > 0 {
				last := p.kids[len(p.kids)-1]
				d.Nodes[last].next = i
				n.prev = last
			}
			p.kids = append(p.kids, i)
		}
	}
	for i := len(d.Nodes) - 1; i >= 1; i-- {
		n := &d.Nodes[i]
		switch n.K {
		case "root", "elem":
			s := ""
			for _, k := range n.kids {
				c := &d.Nodes[k]
				if c.K == "text" || c.K == "elem" {
					s += c.sv
				}
			}
			n.sv = s
		case "comment":
			n.sv = n.V
		default:
			n.sv = n.V
		}
	}
	// a comment contributes nothing to its ancestors' string-value
	return nil
}

// New builds a document from node records (ids 1..len).
func New(nodes []Node) (*Doc, error) {
	d := &Doc{Nodes: append([]Node{{}}, nodes...)}
	for i := range d.Nodes {
		d.Nodes[i].kids, d.Nodes[i].attrs = nil, nil
		d.Nodes[i].prev, d.Nodes[i].next = 0, 0
	}
	if err := d.link(); err != nil {
		return nil, err
	}
	return d, nil
}

// Nav is the navigator flavour that exposes namespace URIs.
type Nav struct {
	D   *Doc
	Cur int
}

// NavPlain is the flavour WITHOUT NamespaceURL (a distinct type on purpose:
// embedding Nav would promote the method).
type NavPlain struct {
	D   *Doc
	Cur int
}

// At returns a URI-exposing navigator positioned at node id.
func (d *Doc) At(id int) *Nav { return &Nav{D: d, Cur: id} }

// AtPlain returns a plain navigator positioned at node id.
func (d *Doc) AtPlain(id int) *NavPlain { return &NavPlain{D: d, Cur: id} }

func nodeType(k string) xpath.NodeType {
	switch k {
	case "root":
		return xpath.RootNode
	case "elem":
		return xpath.ElementNode
	case "attr":
		return xpath.AttributeNode
	case "text":
		return xpath.TextNode
	}
	return xpath.CommentNode
}

// the cursor operations on (doc, id): 0 = move failed
func (d *Doc) mvChild(i int) int {
	if k := d.Nodes[i].kids; len(k) > 0 {
		return k[0]
	}
	return 0
}
func (d *Doc) mvNext(i int) int { return d.Nodes[i].next }
func (d *Doc) mvPrev(i int) int { return d.Nodes[i].prev }
func (d *Doc) mvFirst(i int) int {
	n := &d.Nodes[i]
	if n.K == "attr" || n.P == 0 || n.prev == 0 {
		return 0
	}
	return d.Nodes[n.P].kids[0]
}
func (d *Doc) mvNextAttr(i int) int {
	n := &d.Nodes[i]
	if n.K == "attr" {
		as := d.Nodes[n.P].attrs
		for j, a := range as {
			if a == i {
				if j+1 < len(as) {
					return as[j+1]
				}
				return 0
			}
		}
		return 0
	}
	if len(n.attrs) > 0 {
		return n.attrs[0]
	}
	return 0
}

// Move applies a named cursor operation of XDoc.NavMove (for the navigator
// self-check): returns the new id or 0.
func (d *Doc) Move(op string, i int) int {
	switch op {
	case "child":
		return d.mvChild(i)
	case "next":
		return d.mvNext(i)
	case "prev":
		return d.mvPrev(i)
	case "parent":
		return d.Nodes[i].P
	case "root":
		return 1
	case "first":
		return d.mvFirst(i)
	case "nextattr":
		return d.mvNextAttr(i)
	}
	panic("unknown nav op " + op)
}

func (n *Nav) NodeType() xpath.NodeType { return nodeType(n.D.Nodes[n.Cur].K) }
func (n *Nav) LocalName() string        { return n.D.Nodes[n.Cur].N }
func (n *Nav) Prefix() string           { return n.D.Nodes[n.Cur].Px }
func (n *Nav) NamespaceURL() string     { return n.D.Nodes[n.Cur].Ns }
func (n *Nav) Value() string            { return n.D.Nodes[n.Cur].sv }
func (n *Nav) Copy() xpath.NodeNavigator {
	c := *n
	return &c
}
func (n *Nav) MoveToRoot() { n.Cur = 1 }
func (n *Nav) mv(to int) bool {
	if to == 0 {
		return false
	}
	n.Cur = to
	return true
}
func (n *Nav) MoveToParent() bool        { return n.mv(n.D.Nodes[n.Cur].P) }
func (n *Nav) MoveToNextAttribute() bool { return n.mv(n.D.mvNextAttr(n.Cur)) }
func (n *Nav) MoveToChild() bool         { return n.mv(n.D.mvChild(n.Cur)) }
func (n *Nav) MoveToFirst() bool         { return n.mv(n.D.mvFirst(n.Cur)) }
func (n *Nav) MoveToNext() bool          { return n.mv(n.D.mvNext(n.Cur)) }
func (n *Nav) MoveToPrevious() bool      { return n.mv(n.D.mvPrev(n.Cur)) }
func (n *Nav) MoveTo(o xpath.NodeNavigator) bool {
	x, ok := o.(*Nav)
	if !ok || x.D != n.D {
		return false
	}
	n.Cur = x.Cur
	return true
}

func (n *NavPlain) NodeType() xpath.NodeType { return nodeType(n.D.Nodes[n.Cur].K) }
func (n *NavPlain) LocalName() string        { return n.D.Nodes[n.Cur].N }
func (n *NavPlain) Prefix() string           { return n.D.Nodes[n.Cur].Px }
func (n *NavPlain) Value() string            { return n.D.Nodes[n.Cur].sv }
func (n *NavPlain) Copy() xpath.NodeNavigator {
	c := *n
	return &c
}
func (n *NavPlain) MoveToRoot() { n.Cur = 1 }
func (n *NavPlain) mv(to int) bool {
	if to == 0 {
		return false
	}
	n.Cur = to
	return true
}
func (n *NavPlain) MoveToParent() bool        { return n.mv(n.D.Nodes[n.Cur].P) }
func (n *NavPlain) MoveToNextAttribute() bool { return n.mv(n.D.mvNextAttr(n.Cur)) }
func (n *NavPlain) MoveToChild() bool         { return n.mv(n.D.mvChild(n.Cur)) }
func (n *NavPlain) MoveToFirst() bool         { return n.mv(n.D.mvFirst(n.Cur)) }
func (n *NavPlain) MoveToNext() bool          { return n.mv(n.D.mvNext(n.Cur)) }
func (n *NavPlain) MoveToPrevious() bool      { return n.mv(n.D.mvPrev(n.Cur)) }
func (n *NavPlain) MoveTo(o xpath.NodeNavigator) bool {
	x, ok := o.(*NavPlain)
	if !ok || x.D != n.D {
		return false
	}
	n.Cur = x.Cur
	return true
}

// IDOf returns the node id a navigator handed out by the engine is on.
func IDOf(n xpath.NodeNavigator) int {
	switch x := n.(type) {
	case *Nav:
		return x.Cur
	case *NavPlain:
		return x.Cur
	case *RecNav:
		return x.Cur
	}
	return -1
}

// Move is one cursor movement the engine performed: op, node before, node after (0 = the move failed).
type Move struct {
	Op       string
	From, To int
}

// RecNav is a URI-exposing navigator that records every cursor movement of itself and of all its
// copies into one shared log (the implementation-shaped model XQueryVM predicts this log).
type RecNav struct {
	Nav
	Log *[]Move
}

// AtRec returns a recording navigator positioned at node id.
func (d *Doc) AtRec(id int, log *[]Move) *RecNav { return &RecNav{Nav: Nav{D: d, Cur: id}, Log: log} }

func (n *RecNav) rec(op string, to int) bool {
	*n.Log = append(*n.Log, Move{op, n.Cur, to})
	return n.mv(to)
}
func (n *RecNav) Copy() xpath.NodeNavigator { c := *n; return &c }
func (n *RecNav) MoveToRoot()               { *n.Log = append(*n.Log, Move{"root", n.Cur, 1}); n.Cur = 1 }
func (n *RecNav) MoveToParent() bool        { return n.rec("parent", n.D.Nodes[n.Cur].P) }
func (n *RecNav) MoveToNextAttribute() bool { return n.rec("nextattr", n.D.mvNextAttr(n.Cur)) }
func (n *RecNav) MoveToChild() bool         { return n.rec("child", n.D.mvChild(n.Cur)) }
func (n *RecNav) MoveToFirst() bool         { return n.rec("first", n.D.mvFirst(n.Cur)) }
func (n *RecNav) MoveToNext() bool          { return n.rec("next", n.D.mvNext(n.Cur)) }
func (n *RecNav) MoveToPrevious() bool      { return n.rec("prev", n.D.mvPrev(n.Cur)) }
func (n *RecNav) MoveTo(o xpath.NodeNavigator) bool {
	x, ok := o.(*RecNav)
	if !ok || x.D != n.D {
		return false
	}
	n.Cur = x.Cur
	return true
}
