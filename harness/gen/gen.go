// Package gen holds the seeded random generators of the Flow-B drivers:
// documents and expressions beyond the bounds of the exhaustive models.
package gen

import (
	"fmt"
	"math/rand"

	"xvh/vdoc"
	"xvh/xast"
)

// G is a seeded generator.
type G struct {
	R *rand.Rand
	// alphabets
	Elems, Attrs, Texts []string
	Prefixes            []string // "" = unprefixed
	URIs                map[string]string
	// NoDiv: draw no 'div' (quotients may leave the exact number model of the specification, which
	// cannot be skipped per candidate inside a predicate)
	NoDiv bool
}

// New returns a generator with the default alphabets.
func New(seed int64) *G {
	return &G{
		R: rand.New(rand.NewSource(seed)),
		// names sharing a prefix, names with '-' and digits; values that are long, repetitive, contain a tab, or are numbers
		// outside the exact model (skipped by the validators when used numerically).  ASCII only: the string functions are
		// claimed for ASCII arguments (C09); non-ASCII white space appears only in NumLookDoc, under numeric comparisons
		Elems: []string{"a", "b", "c", "ab", "a-1"},
		Attrs: []string{"a", "b", "id", "ab"},
		Texts: []string{"1", "2", "10", "0.5", "x", "ab", " 1 ", "-3", "t", "abababab", "aaaa", "a\tb", "0.1",
			"the quick brown fox jumps over the lazy dog 0123456789"},
	}
}

func (g *G) pick(xs []string) string { return xs[g.R.Intn(len(xs))] }

// Doc builds a random well-formed document with up to max nodes (incl. root).
func (g *G) Doc(max int) *vdoc.Doc {
	// one document in eight has an unusual SHAPE: a parent with 10-13 children (two-digit sibling positions)
	// or a chain 6-9 levels deep; bounded enumeration never reaches these
	if max >= 12 {
		switch g.R.Intn(16) {
		case 0:
			return g.wideDoc()
		case 1:
			return g.deepDoc()
		case 2:
			return g.twinDoc()
		}
	}
	n := 2 + g.R.Intn(max-1)
	nodes := []vdoc.Node{{K: "root"}}
	// right-most path of element/root ids (1-based)
	path := []int{1}
	lastKid := map[int]string{} // parent -> kind of its last child
	attrOpen := 0               // element that may still receive attributes
	for len(nodes) < n {
		id := len(nodes) + 1
		r := g.R.Intn(100)
		switch {
		case attrOpen != 0 && r < 25:
			name := g.pick(g.Attrs)
			dup := false
			for i := attrOpen; i < len(nodes); i++ {
				if nodes[i].K == "attr" && nodes[i].P == attrOpen && nodes[i].N == name {
					dup = true
				}
			}
			if dup {
				continue
			}
			nodes = append(nodes, vdoc.Node{K: "attr", N: name, P: attrOpen, V: g.pick(g.Texts)})
		case r < 70:
			// element under a random node of the right-most path (bias to deep)
			k := len(path) - 1 - g.R.Intn(min(len(path), 3))
			p := path[k]
			path = append(path[:k+1], id)
			nodes = append(nodes, vdoc.Node{K: "elem", N: g.pick(g.Elems), P: p})
			lastKid[p] = "elem"
			attrOpen = id
		case r < 90:
			k := len(path) - 1 - g.R.Intn(min(len(path), 2))
			p := path[k]
			if lastKid[p] == "text" || p == 1 {
				continue
			}
			path = path[:k+1]
			nodes = append(nodes, vdoc.Node{K: "text", P: p, V: g.pick(g.Texts)})
			lastKid[p] = "text"
			attrOpen = 0
		default:
			k := len(path) - 1 - g.R.Intn(min(len(path), 2))
			p := path[k]
			path = path[:k+1]
			nodes = append(nodes, vdoc.Node{K: "comment", P: p, V: "k"})
			lastKid[p] = "comment"
			attrOpen = 0
		}
	}
	d, err := vdoc.New(nodes)
	if err != nil {
		panic(err)
	}
	return d
}

// wideDoc: root / a / (10..13 children of mixed kinds, some with a child or an attribute).
func (g *G) wideDoc() *vdoc.Doc {
	nodes := []vdoc.Node{{K: "root"}, {K: "elem", N: g.pick(g.Elems), P: 1}}
	kids := 10 + g.R.Intn(4)
	last := ""
	for i := 0; i < kids; i++ {
		switch r := g.R.Intn(10); {
		case r < 6 || last == "text":
			nodes = append(nodes, vdoc.Node{K: "elem", N: g.pick(g.Elems), P: 2})
			id := len(nodes)
			last = "elem"
			if g.R.Intn(4) == 0 {
				nodes = append(nodes, vdoc.Node{K: "attr", N: g.pick(g.Attrs), P: id, V: g.pick(g.Texts)})
			}
			if g.R.Intn(4) == 0 {
				nodes = append(nodes, vdoc.Node{K: "text", P: id, V: g.pick(g.Texts)})
			}
		case r < 8:
			nodes = append(nodes, vdoc.Node{K: "text", P: 2, V: g.pick(g.Texts)})
			last = "text"
		default:
			nodes = append(nodes, vdoc.Node{K: "comment", P: 2, V: "k"})
			last = "comment"
		}
	}
	d, err := vdoc.New(nodes)
	if err != nil {
		panic(err)
	}
	return d
}

// NumLookDoc: a document whose text and attribute values LOOK like numbers: padded with XPath whitespace (number),
// padded with other Unicode white space or controls (NaN), signs, exponents, separators.
func (g *G) NumLookDoc(max int) *vdoc.Doc {
	saved := g.Texts
	g.Texts = []string{"7", " 7", "7 ", "\t7\n", "\u00a07", "7\u00a0", "7\u2003", "\u20037", "+7", "7.", ".7", "7e0", "0x7", "7,0", "07", "-7", "- 7", "7-", ""}
	d := g.Doc(max)
	g.Texts = saved
	return d
}

// NumLookPred: a numeric comparison of the context node (or an attribute / child) with a small number, either way round.
func (g *G) NumLookPred() *xast.Expr {
	self := &xast.Expr{T: "path", Steps: []xast.Step{{Ax: "self", Nt: xast.NT{K: "node"}}}}
	operand := []*xast.Expr{self, {T: "path", Steps: []xast.Step{{Ax: "attribute", Nt: xast.NT{K: "any"}}}},
		{T: "path", Steps: []xast.Step{{Ax: "child", Nt: xast.NT{K: "text"}}}}}[g.R.Intn(3)]
	n := num(int64([]int{0, 3, 7, 8}[g.R.Intn(4)]))
	op := []string{"=", "!=", "<", "<=", ">", ">="}[g.R.Intn(6)]
	var e *xast.Expr
	if g.R.Intn(2) == 0 {
		e = bin(op, operand, n)
	} else {
		e = bin(op, n, operand)
	}
	if g.R.Intn(4) == 0 {
		e = call("not", e)
	}
	return e
}

// ScaleDoc builds documents past the usual buffer / counter thresholds (64, 256): kind 0 = one parent with 258-300
// children (mixed kinds, an attribute here and there), kind 1 = a chain of 66-72 nested elements with a text at the
// bottom and a sibling here and there, kind 2 = one element with 66-70 attributes and 66-70 element children.
func (g *G) ScaleDoc(kind int) *vdoc.Doc {
	nodes := []vdoc.Node{{K: "root"}, {K: "elem", N: "r", P: 1}}
	switch kind {
	case 0:
		last := ""
		// at least 257 children NAMED a (8-bit position counters wrap at 256)
		for i, n := 0, 360+g.R.Intn(43); i < n; i++ {
			switch r := g.R.Intn(12); {
			case r < 10 || last == "text":
				nodes = append(nodes, vdoc.Node{K: "elem", N: g.pick([]string{"a", "a", "a", "a", "a", "a", "a", "b"}), P: 2})
				last = "elem"
				if g.R.Intn(8) == 0 {
					nodes = append(nodes, vdoc.Node{K: "attr", N: "id", P: len(nodes), V: fmt.Sprint(i)})
				}
			case r < 11:
				nodes = append(nodes, vdoc.Node{K: "text", P: 2, V: g.pick(g.Texts)})
				last = "text"
			default:
				nodes = append(nodes, vdoc.Node{K: "comment", P: 2, V: "k"})
				last = "comment"
			}
		}
	case 1:
		p := 2
		for i, n := 0, 66+g.R.Intn(7); i < n; i++ {
			if g.R.Intn(10) == 0 {
				nodes = append(nodes, vdoc.Node{K: "elem", N: "b", P: p})
			}
			nodes = append(nodes, vdoc.Node{K: "elem", N: g.pick([]string{"a", "a", "b"}), P: p})
			p = len(nodes)
		}
		nodes = append(nodes, vdoc.Node{K: "text", P: p, V: "1"})
	default:
		for i, n := 0, 66+g.R.Intn(5); i < n; i++ {
			nodes = append(nodes, vdoc.Node{K: "attr", N: fmt.Sprintf("a%d", i), P: 2, V: fmt.Sprint(i % 7)})
		}
		for i, n := 0, 66+g.R.Intn(5); i < n; i++ {
			nodes = append(nodes, vdoc.Node{K: "elem", N: g.pick([]string{"a", "b"}), P: 2})
		}
	}
	d, err := vdoc.New(nodes)
	if err != nil {
		panic(err)
	}
	return d
}

// ScaleExpr draws short expressions whose interesting inputs are LARGE counts: positions around 64 and 256, unions and
// reversals of many nodes, absolute paths (to be evaluated from deep inside), attribute and descendant sweeps.
func (g *G) ScaleExpr() (*xast.Expr, string) {
	ch := func(n string, preds ...*xast.Expr) xast.Step {
		nt := xast.NT{K: "any"}
		if n != "*" {
			nt = xast.NT{K: "name", N: n}
		}
		return xast.Step{Ax: "child", Nt: nt, Preds: preds}
	}
	path := func(abs bool, st ...xast.Step) *xast.Expr { return &xast.Expr{T: "path", Abs: abs, Steps: st} }
	pos := []int64{1, 2, 63, 64, 65, 66, 127, 128, 129, 255, 256, 257, 258}
	n := num(pos[g.R.Intn(len(pos))])
	name := g.pick([]string{"a", "b", "*"})
	r := ch("r")
	switch g.R.Intn(12) {
	case 0:
		return path(true, r, ch(name, n)), "seq"
	case 1:
		return path(true, r, ch(name, bin(g.pick([]string{"=", ">", "<="}), call("position"), n))), "seq"
	case 2:
		return path(true, r, ch(name, bin("-", call("last"), num(int64(g.R.Intn(3)))))), "seq"
	case 3:
		return &xast.Expr{T: "union", L: path(true, r, ch("*")), R: path(true, r, ch(name, n))}, "once"
	case 4:
		return &xast.Expr{T: "union", L: path(true, r, ch("a")), R: path(true, r, ch("*"))}, "once"
	case 5:
		return call("count", path(true, r, ch(name))), "set"
	case 6:
		return path(true, xast.Step{Ax: "descendant-or-self", Nt: xast.NT{K: "node"}}, ch(name)), "seq"
	case 7:
		return path(true), "set" // the root, from wherever
	case 8:
		return path(true, xast.Step{Ax: "child", Nt: xast.NT{K: "any"}}), "seq"
	case 9:
		return path(false, xast.Step{Ax: g.pick([]string{"ancestor", "ancestor-or-self", "preceding-sibling", "following-sibling", "preceding", "following"}), Nt: xast.NT{K: "any"}}), "set"
	case 10:
		return path(true, r, xast.Step{Ax: "attribute", Nt: xast.NT{K: "any"}}), "seq"
	}
	return &xast.Expr{T: "filter", E: path(true, xast.Step{Ax: "descendant-or-self", Nt: xast.NT{K: "node"}}, ch(name)), Preds: []*xast.Expr{n}}, "set"
}

// twinDoc: two or three IDENTICAL branches three or four levels deep under one element: nodes of different branches
// share depth, names and every sibling position below the top.
func (g *G) twinDoc() *vdoc.Doc {
	depth := 3 + g.R.Intn(2)
	names := make([]string, depth)
	for i := range names {
		names[i] = g.pick(g.Elems)
	}
	leafText := g.R.Intn(2) == 0
	nodes := []vdoc.Node{{K: "root"}, {K: "elem", N: g.pick(g.Elems), P: 1}}
	for b := 2 + g.R.Intn(2); b > 0; b-- {
		p := 2
		for i := 0; i < depth; i++ {
			nodes = append(nodes, vdoc.Node{K: "elem", N: names[i], P: p})
			p = len(nodes)
		}
		if leafText {
			nodes = append(nodes, vdoc.Node{K: "text", P: p, V: g.pick(g.Texts)})
		}
	}
	d, err := vdoc.New(nodes)
	if err != nil {
		panic(err)
	}
	return d
}

// deepDoc: a chain of 6..9 nested elements, with a sibling or a text here and there.
func (g *G) deepDoc() *vdoc.Doc {
	nodes := []vdoc.Node{{K: "root"}}
	p := 1
	depth := 6 + g.R.Intn(4)
	for i := 0; i < depth; i++ {
		if i > 0 && g.R.Intn(3) == 0 {
			nodes = append(nodes, vdoc.Node{K: "elem", N: g.pick(g.Elems), P: p}) // an elder sibling of the chain
		}
		nodes = append(nodes, vdoc.Node{K: "elem", N: g.pick(g.Elems), P: p})
		p = len(nodes)
		if g.R.Intn(4) == 0 {
			nodes = append(nodes, vdoc.Node{K: "attr", N: g.pick(g.Attrs), P: p, V: g.pick(g.Texts)})
		}
	}
	nodes = append(nodes, vdoc.Node{K: "text", P: p, V: g.pick(g.Texts)})
	d, err := vdoc.New(nodes)
	if err != nil {
		panic(err)
	}
	return d
}

var axes = []string{"ancestor", "ancestor-or-self", "attribute", "child", "descendant", "descendant-or-self",
	"following", "following-sibling", "parent", "preceding", "preceding-sibling", "self"}

// weighted towards the common axes
var axesW = []string{"child", "child", "child", "child", "descendant", "descendant-or-self", "attribute", "parent", "self",
	"ancestor", "ancestor-or-self", "following", "following-sibling", "preceding", "preceding-sibling", "descendant-or-self"}

// NodeTest draws a node test.
func (g *G) NodeTest(ax string) xast.NT {
	r := g.R.Intn(100)
	switch {
	case r < 50:
		if ax == "attribute" {
			return xast.NT{K: "name", N: g.pick(g.Attrs)}
		}
		return xast.NT{K: "name", N: g.pick(g.Elems)}
	case r < 70:
		return xast.NT{K: "any"}
	case r < 88:
		return xast.NT{K: "node"}
	case r < 96:
		return xast.NT{K: "text"}
	}
	return xast.NT{K: "comment"}
}

// Step draws a predicate-free step.
func (g *G) Step() xast.Step {
	ax := g.pick(axesW)
	return xast.Step{Ax: ax, Nt: g.NodeTest(ax)}
}

// DosNode is the step '//' abbreviates.
func DosNode() xast.Step {
	return xast.Step{Ax: "descendant-or-self", Nt: xast.NT{K: "node"}}
}

// Path draws a predicate-free location path of 1..max steps.
func (g *G) Path(max int) *xast.Expr {
	n := 1 + g.R.Intn(max)
	e := &xast.Expr{T: "path", Abs: g.R.Intn(3) == 0}
	for i := 0; i < n; i++ {
		if g.R.Intn(6) == 0 && i+1 < n {
			e.Steps = append(e.Steps, DosNode())
			continue
		}
		e.Steps = append(e.Steps, g.Step())
	}
	return e
}

func min(a, b int) int {
	if a < b {
		return a
	}
	return b
}

// ---------------------------------------------------------------------------
// Expressions inside the fragments of C02/C03 (predicates) and C07/C08/C09
// (values), deeper than the exhaustive pools.

func num(i int64) *xast.Expr                    { return &xast.Expr{T: "num", V: &xast.Num{C: "fin", N: i}} }
func lit(s string) *xast.Expr                   { return &xast.Expr{T: "lit", S: s} }
func call(f string, a ...*xast.Expr) *xast.Expr { return &xast.Expr{T: "call", F: f, Args: a} }
func bin(op string, l, r *xast.Expr) *xast.Expr { return &xast.Expr{T: "bin", Op: op, L: l, R: r} }

var forwardAxes = []string{"child", "child", "descendant", "descendant-or-self", "attribute", "self", "following", "following-sibling", "parent"}

// relPath draws a relative predicate-free path of 1..max steps.
func (g *G) relPath(max int, forwardOnly bool) *xast.Expr {
	n := 1 + g.R.Intn(max)
	e := &xast.Expr{T: "path"}
	for i := 0; i < n; i++ {
		var ax string
		if forwardOnly {
			ax = g.pick(forwardAxes)
		} else {
			ax = g.pick(axesW)
		}
		e.Steps = append(e.Steps, xast.Step{Ax: ax, Nt: g.NodeTest(ax)})
	}
	return e
}

// flatPath: child/attribute/self steps only (C12's flat fragment).
func (g *G) flatPath(max int) *xast.Expr {
	n := 1 + g.R.Intn(max)
	e := &xast.Expr{T: "path"}
	for i := 0; i < n; i++ {
		ax := []string{"child", "child", "child", "self"}[g.R.Intn(4)]
		if i == n-1 && g.R.Intn(4) == 0 {
			ax = "attribute"
		}
		e.Steps = append(e.Steps, xast.Step{Ax: ax, Nt: g.NodeTest(ax)})
	}
	return e
}

// BoolPred draws a boolean-valued predicate of the C02 grammar with nesting <= depth.
func (g *G) BoolPred(depth int) *xast.Expr {
	pp := g.relPath(2, false)
	if depth > 0 && g.R.Intn(3) == 0 {
		// nested predicate on the last step of the predicate path
		pp.Steps[len(pp.Steps)-1].Preds = []*xast.Expr{g.BoolPred(depth - 1)}
	}
	switch g.R.Intn(13) {
	case 12:
		// node-set compared with a node-set: true iff some pair of string-values satisfies it
		return bin([]string{"=", "!="}[g.R.Intn(2)], pp, g.relPath(1+g.R.Intn(2), false))
	case 0, 1, 2:
		return pp
	case 3:
		return bin("=", pp, lit(g.pick(g.Texts)))
	case 4:
		return bin("!=", pp, lit(g.pick(g.Texts)))
	case 5:
		return bin([]string{"<", "<=", ">", ">="}[g.R.Intn(4)], pp, num(int64(g.R.Intn(4))))
	case 6:
		return call("not", pp)
	case 7:
		if depth > 0 {
			return bin([]string{"and", "or"}[g.R.Intn(2)], g.BoolPred(depth-1), g.BoolPred(depth-1))
		}
		return pp
	case 8:
		return bin([]string{"=", ">", "<"}[g.R.Intn(3)], call("count", pp), num(int64(g.R.Intn(3))))
	case 9:
		// string functions take the first node in DOCUMENT order: forward axes only (KF-C02-1)
		return call([]string{"contains", "starts-with"}[g.R.Intn(2)], g.relPath(1, true), lit(g.pick([]string{"1", "x", "a", ""})))
	case 10:
		return bin("=", call("local-name"), lit(g.pick(g.Elems)))
	}
	return bin("=", &xast.Expr{T: "path", Steps: []xast.Step{{Ax: "self", Nt: xast.NT{K: "node"}}}}, lit(g.pick(g.Texts)))
}

// PosPred draws a positional predicate of the C03 grammar.
func (g *G) PosPred() *xast.Expr {
	n := int64(1 + g.R.Intn(3))
	if g.R.Intn(6) == 0 {
		n = int64(9 + g.R.Intn(4)) // two-digit positions (wide documents)
	}
	ops := []string{"=", "!=", "<", "<=", ">", ">="}
	switch g.R.Intn(6) {
	case 0, 1:
		return num(n)
	case 2:
		return bin(ops[g.R.Intn(6)], call("position"), num(n))
	case 3:
		return bin(ops[g.R.Intn(6)], call("position"), call("last"))
	case 4:
		return call("last")
	}
	return bin("-", call("last"), num(int64(1+g.R.Intn(2))))
}

// PredPath draws a path whose steps carry predicates inside the C02/C03 fragments.
func (g *G) PredPath() *xast.Expr {
	e := g.Path(3)
	for i := range e.Steps {
		s := &e.Steps[i]
		if s.Ax == "descendant-or-self" && s.Nt.K == "node" {
			continue // keep '//' abbreviable
		}
		if g.R.Intn(2) == 0 {
			continue
		}
		if s.Ax == "child" && g.R.Intn(3) == 0 {
			s.Preds = append(s.Preds, g.PosPred()) // positional: only FIRST and only on child steps
		}
		for k := g.R.Intn(3); k > 0; k-- {
			s.Preds = append(s.Preds, g.BoolPred(1))
		}
	}
	return e
}

var exactNums = []*xast.Num{{C: "fin", N: 0}, {C: "fin", N: 1}, {C: "fin", N: 2}, {C: "fin", N: 3}, {C: "fin", N: 10}, {C: "fin", N: 1, K: 1},
	{C: "fin", N: 1, K: 2}, {C: "fin", N: 3, K: 1}, {C: "fin", N: 7}, {C: "fin", N: 100}}

// NumExpr draws an arithmetic expression (C08 fragment) of the given depth.
func (g *G) NumExpr(depth int) *xast.Expr {
	if depth == 0 || g.R.Intn(4) == 0 {
		switch g.R.Intn(8) {
		case 0:
			return call("count", g.flatPath(2))
		case 1:
			return call("number", g.flatPath(2))
		case 2:
			return call("string-length", lit(g.pick([]string{"", "a", "abc", " x "})))
		case 3:
			return call("number", lit(g.pick([]string{"12", " 7 ", "x", "", "-0.5", "1e3", "5.", ".5", "-"})))
		case 4:
			return bin("div", num(int64(g.R.Intn(2))), num(0)) // NaN / Infinity (exact special values)
		}
		return &xast.Expr{T: "num", V: exactNums[g.R.Intn(len(exactNums))]}
	}
	switch g.R.Intn(9) {
	case 0:
		return &xast.Expr{T: "neg", E: g.NumExpr(depth - 1)}
	case 1:
		return call("floor", g.NumExpr(depth-1))
	case 2:
		return call("ceiling", g.NumExpr(depth-1))
	}
	op := []string{"+", "-", "*", "div", "+", "-", "*"}[g.R.Intn(7)]
	if g.NoDiv && op == "div" {
		op = "*"
	}
	return bin(op, g.NumExpr(depth-1), g.NumExpr(depth-1))
}

var strPool = []string{"", "a", "ab", "aba", "A b", " a  b ", "-", "12", "a-b", "B", "12345", "x"}

// StrExpr draws a string-valued expression (C09 fragment).
func (g *G) StrExpr(depth int) *xast.Expr {
	if depth == 0 || g.R.Intn(3) == 0 {
		if g.R.Intn(4) == 0 {
			return call("string", g.flatPath(2))
		}
		return lit(g.pick(strPool))
	}
	switch g.R.Intn(9) {
	case 0:
		return call("concat", g.StrExpr(depth-1), g.StrExpr(depth-1))
	case 1:
		return call("substring-before", g.StrExpr(depth-1), g.StrExpr(depth-1))
	case 2:
		return call("substring-after", g.StrExpr(depth-1), g.StrExpr(depth-1))
	case 3:
		return call("normalize-space", g.StrExpr(depth-1))
	case 4:
		return call("lower-case", g.StrExpr(depth-1))
	case 5:
		return call("translate", g.StrExpr(depth-1), lit(g.pick([]string{"a", "ab", "ba-", ""})), lit(g.pick([]string{"", "x", "xy"})))
	case 6:
		a := &xast.Expr{T: "num", V: &xast.Num{C: "fin", N: int64(g.R.Intn(13)), K: g.R.Intn(2)}}
		var s *xast.Expr = a
		if g.R.Intn(3) == 0 {
			s = &xast.Expr{T: "neg", E: a}
		}
		if g.R.Intn(2) == 0 {
			return call("substring", g.StrExpr(depth-1), s)
		}
		return call("substring", g.StrExpr(depth-1), s, &xast.Expr{T: "num", V: &xast.Num{C: "fin", N: int64(g.R.Intn(9)), K: g.R.Intn(2)}})
	case 7:
		return call("string", g.NumSmall())
	}
	return call("string-join", g.flatPath(2), lit(g.pick([]string{"", ",", "-"})))
}

// NumSmall: numbers whose string() rendering is claimed (finite, below one million).
func (g *G) NumSmall() *xast.Expr {
	e := &xast.Expr{T: "num", V: exactNums[g.R.Intn(len(exactNums))]}
	if g.R.Intn(3) == 0 {
		return &xast.Expr{T: "neg", E: e}
	}
	if g.R.Intn(3) == 0 {
		return bin([]string{"+", "-", "*"}[g.R.Intn(3)], e, &xast.Expr{T: "num", V: exactNums[g.R.Intn(len(exactNums))]})
	}
	return e
}

// BoolExpr draws a comparison / boolean expression inside the C07 type pairs.
func (g *G) BoolExpr(depth int) *xast.Expr {
	cmp := []string{"=", "!=", "<", "<=", ">", ">="}
	eq := []string{"=", "!="}
	if depth > 0 && g.R.Intn(3) == 0 {
		switch g.R.Intn(3) {
		case 0:
			return bin([]string{"and", "or"}[g.R.Intn(2)], g.BoolExpr(depth-1), g.BoolExpr(depth-1))
		case 1:
			return call("not", g.BoolExpr(depth-1))
		}
		return call("boolean", g.flatPath(2))
	}
	switch g.R.Intn(6) {
	case 0:
		return bin(cmp[g.R.Intn(6)], g.NumExpr(1), g.NumExpr(1))
	case 1:
		return bin(cmp[g.R.Intn(6)], g.flatPath(2), g.NumExpr(1))
	case 2:
		return bin(cmp[g.R.Intn(6)], g.NumExpr(1), g.flatPath(2))
	case 3:
		return bin(eq[g.R.Intn(2)], g.StrExpr(1), g.StrExpr(1))
	case 4:
		if g.R.Intn(2) == 0 {
			return bin(eq[g.R.Intn(2)], g.flatPath(2), g.StrExpr(1))
		}
		return bin(eq[g.R.Intn(2)], g.StrExpr(1), g.flatPath(2))
	}
	return bin(eq[g.R.Intn(2)], g.flatPath(2), g.flatPath(2))
}

// ---------------------------------------------------------------------------
// namespaces (C14) and unions (C11)

// three different URIs that a "canonicalising" comparison would confuse: trailing '/', letter case
const (
	u1 = "http://ex.org/ns/"
	u2 = "http://ex.org/ns"
	u3 = "HTTP://EX.ORG/NS/"
)

var nsLabels = [][3]string{{"", "", "a"}, {"p", u1, "a"}, {"q", u1, "a"}, {"p", u2, "b"}, {"q", u2, "a"}, {"r", u3, "b"}, {"", "", "b"}}

// NsDoc decorates a random document with prefixes / namespace URIs.
func (g *G) NsDoc(max int) *vdoc.Doc {
	d := g.Doc(max)
	nodes := make([]vdoc.Node, 0, d.Len())
	for i := 1; i <= d.Len(); i++ {
		n := d.Nodes[i]
		if n.K == "elem" || n.K == "attr" {
			l := nsLabels[g.R.Intn(len(nsLabels))]
			n.Px, n.Ns, n.N = l[0], l[1], l[2]
		}
		nodes = append(nodes, vdoc.Node{K: n.K, N: n.N, P: n.P, V: n.V, Px: n.Px, Ns: n.Ns})
	}
	// attribute names must stay unique per element: drop clashes
	seen := map[[3]interface{}]bool{}
	out := nodes[:0]
	remap := map[int]int{}
	for i, n := range nodes {
		if n.K == "attr" {
			k := [3]interface{}{n.P, n.Px, n.N}
			if seen[k] {
				continue
			}
			seen[k] = true
		}
		remap[i+1] = len(out) + 1
		out = append(out, n)
	}
	for i := range out {
		if out[i].P != 0 {
			out[i].P = remap[out[i].P]
		}
	}
	nd, err := vdoc.New(out)
	if err != nil {
		panic(err)
	}
	return nd
}

// NsMaps are the namespace maps of the configurations (nil = Compile without a map).
var NsMaps = []map[string]string{nil, {"p": u1, "q": u2}, {"p": u2}, {"r": u1, "p": u3}, {}, {"p": u1, "q": u1, "r": u3}, {"p": "", "q": u1}, {"p": u2, "pq": u1}}

// NsPath draws a path whose name tests carry prefixes.
func (g *G) NsPath() *xast.Expr {
	e := g.Path(3)
	for i := range e.Steps {
		if e.Steps[i].Nt.K == "name" {
			l := nsLabels[g.R.Intn(len(nsLabels))]
			e.Steps[i].Nt.Px, e.Steps[i].Nt.N = l[0], l[2]
			if g.R.Intn(6) == 0 {
				e.Steps[i].Nt.Px = "zz" // never bound
			}
		}
	}
	return e
}

// UnionExpr draws A | B (possibly nested) over predicate-free paths.
func (g *G) UnionExpr(depth int) *xast.Expr {
	if depth == 0 || g.R.Intn(3) == 0 {
		return g.Path(3)
	}
	return &xast.Expr{T: "union", L: g.UnionExpr(depth - 1), R: g.UnionExpr(depth - 1)}
}
