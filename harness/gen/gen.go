// Package gen holds the seeded random generators of the Flow-B drivers:
// documents and expressions beyond the bounds of the exhaustive models.
package gen

import (
	"math/rand"

	"xvh/vdoc"
	"xvh/xast"
)

// G is a seeded generator.
type G struct {
	R *rand.Rand
	// alphabets
	Elems, Attrs, Texts []string
	Prefixes            []string // "" = unprefixed
	URIs                map[string]string
}

// New returns a generator with the default alphabets.
func New(seed int64) *G {
	return &G{
		R:     rand.New(rand.NewSource(seed)),
		Elems: []string{"a", "b", "c"},
		Attrs: []string{"a", "b", "id"},
		Texts: []string{"1", "2", "10", "0.5", "x", "ab", " 1 ", "-3", "t"},
	}
}

func (g *G) pick(xs []string) string { return xs[g.R.Intn(len(xs))] }

// Doc builds a random well-formed document with up to max nodes (incl. root).
func (g *G) Doc(max int) *vdoc.Doc {
	n := 2 + g.R.Intn(max-1)
	nodes := []vdoc.Node{{K: "root"}}
	// right-most path of element/root ids (1-based)
	path := []int{1}
	lastKid := map[int]string{} // parent -> kind of its last child
	attrOpen := 0               // element that may still receive attributes
	for len(nodes) < n {
		id := len(nodes) + 1
		r := g.R.Intn(100)
		switch {
		case attrOpen != 0 && r < 25:
			name := g.pick(g.Attrs)
			dup := false
			for i := attrOpen; i < len(nodes); i++ {
				if nodes[i].K == "attr" && nodes[i].P == attrOpen && nodes[i].N == name {
					dup = true
				}
			}
			if dup {
				continue
			}
			nodes = append(nodes, vdoc.Node{K: "attr", N: name, P: attrOpen, V: g.pick(g.Texts)})
		case r < 70:
			// element under a random node of the right-most path (bias to deep)
			k := len(path) - 1 - g.R.Intn(min(len(path), 3))
			p := path[k]
			path = append(path[:k+1], id)
			nodes = append(nodes, vdoc.Node{K: "elem", N: g.pick(g.Elems), P: p})
			lastKid[p] = "elem"
			attrOpen = id
		case r < 90:
			k := len(path) - 1 - g.R.Intn(min(len(path), 2))
			p := path[k]
			if lastKid[p] == "text" || p == 1 {
				continue
			}
			path = path[:k+1]
			nodes = append(nodes, vdoc.Node{K: "text", P: p, V: g.pick(g.Texts)})
			lastKid[p] = "text"
			attrOpen = 0
		default:
			k := len(path) - 1 - g.R.Intn(min(len(path), 2))
			p := path[k]
			path = path[:k+1]
			nodes = append(nodes, vdoc.Node{K: "comment", P: p, V: "k"})
			lastKid[p] = "comment"
			attrOpen = 0
		}
	}
	d, err := vdoc.New(nodes)
	if err != nil {
		panic(err)
	}
	return d
}

var axes = []string{"ancestor", "ancestor-or-self", "attribute", "child", "descendant", "descendant-or-self",
	"following", "following-sibling", "parent", "preceding", "preceding-sibling", "self"}

// weighted towards the common axes
var axesW = []string{"child", "child", "child", "child", "descendant", "descendant-or-self", "attribute", "parent", "self",
	"ancestor", "ancestor-or-self", "following", "following-sibling", "preceding", "preceding-sibling", "descendant-or-self"}

// NodeTest draws a node test.
func (g *G) NodeTest(ax string) xast.NT {
	r := g.R.Intn(100)
	switch {
	case r < 50:
		if ax == "attribute" {
			return xast.NT{K: "name", N: g.pick(g.Attrs)}
		}
		return xast.NT{K: "name", N: g.pick(g.Elems)}
	case r < 70:
		return xast.NT{K: "any"}
	case r < 88:
		return xast.NT{K: "node"}
	case r < 96:
		return xast.NT{K: "text"}
	}
	return xast.NT{K: "comment"}
}

// Step draws a predicate-free step.
func (g *G) Step() xast.Step {
	ax := g.pick(axesW)
	return xast.Step{Ax: ax, Nt: g.NodeTest(ax)}
}

// DosNode is the step '//' abbreviates.
func DosNode() xast.Step {
	return xast.Step{Ax: "descendant-or-self", Nt: xast.NT{K: "node"}}
}

// Path draws a predicate-free location path of 1..max steps.
func (g *G) Path(max int) *xast.Expr {
	n := 1 + g.R.Intn(max)
	e := &xast.Expr{T: "path", Abs: g.R.Intn(3) == 0}
	for i := 0; i < n; i++ {
		if g.R.Intn(6) == 0 && i+1 < n {
			e.Steps = append(e.Steps, DosNode())
			continue
		}
		e.Steps = append(e.Steps, g.Step())
	}
	return e
}

func min(a, b int) int {
	if a < b {
		return a
	}
	return b
}
