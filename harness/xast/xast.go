// Package xast mirrors the abstract syntax of XSem.tla (JSON as written by
// TLC's ToJson / read by ndJsonDeserialize) and prints it as XPath text.
// The printer is the only non-trivial trusted Go code between the
// specification and the engine; the trace specification re-parses what it
// prints (RefParse) so a wrong rendering shows up as a tooling error.
package xast

import (
	"encoding/json"
	"math/big"
	"strings"
)

// Num is XValue's number record.
type Num struct {
	C   string `json:"c"`
	Neg bool   `json:"neg"`
	N   int64  `json:"n"`
	K   int    `json:"k"`
}

// NT is a node test.
type NT struct {
	K  string `json:"k"`
	Px string `json:"px"`
	N  string `json:"n"`
}

// Step is a location step.
type Step struct {
	Ax    string  `json:"ax"`
	Nt    NT      `json:"nt"`
	Preds []*Expr `json:"preds"`
}

// Expr is an expression node; T selects which fields are meaningful.
type Expr struct {
	T     string  `json:"t"`
	Abs   bool    `json:"abs,omitempty"`
	Steps []Step  `json:"steps,omitempty"`
	E     *Expr   `json:"e,omitempty"`
	Preds []*Expr `json:"preds,omitempty"`
	L     *Expr   `json:"l,omitempty"`
	R     *Expr   `json:"r,omitempty"`
	Op    string  `json:"op,omitempty"`
	S     string  `json:"s"`
	N     string  `json:"n,omitempty"`
	V     *Num    `json:"v,omitempty"`
	F     string  `json:"f,omitempty"`
	Args  []*Expr `json:"args,omitempty"`
	Base  *Expr   `json:"base,omitempty"`
	Alts  []Step  `json:"alts,omitempty"`
}

// Opts selects a rendering.
type Opts struct {
	Abbrev bool   // use  a  @a  .  ..  //  where XPath allows
	Space  string // inserted around binary operators and after commas ("" = minimal)
	// LongNum writes finite number literals with 22 leading zeros and 24 trailing zeros after the point: the same
	// XPath number, but a text of about 50 digits (scanners that count or accumulate digits see a different input)
	LongNum bool
}

func prec(op string) int {
	switch op {
	case "or":
		return 1
	case "and":
		return 2
	case "=", "!=":
		return 3
	case "<", "<=", ">", ">=":
		return 4
	case "+", "-":
		return 5
	case "*", "div", "mod":
		return 6
	}
	return 0
}

func level(e *Expr) int {
	switch e.T {
	case "bin":
		return prec(e.Op)
	case "neg":
		return 7
	case "union":
		return 8
	}
	return 9
}

// NumString renders a non-negative dyadic number exactly in decimal.
func NumString(v *Num) string {
	switch v.C {
	case "nan":
		return "(0 div 0)"
	case "inf":
		if v.Neg {
			return "(-1 div 0)"
		}
		return "(1 div 0)"
	}
	r := new(big.Rat).SetFrac(big.NewInt(v.N), new(big.Int).Lsh(big.NewInt(1), uint(v.K)))
	s := r.FloatString(v.K)
	if strings.Contains(s, ".") {
		s = strings.TrimRight(s, "0")
		s = strings.TrimSuffix(s, ".")
	}
	if v.Neg {
		return "-" + s
	}
	return s
}

func quote(s string) string {
	if strings.Contains(s, "'") {
		return `"` + s + `"`
	}
	return "'" + s + "'"
}

func printNT(nt NT) string {
	switch nt.K {
	case "name":
		if nt.Px != "" {
			return nt.Px + ":" + nt.N
		}
		return nt.N
	case "any":
		return "*"
	case "pany":
		return nt.Px + ":*"
	case "node":
		return "node()"
	case "text":
		return "text()"
	case "comment":
		return "comment()"
	}
	return "?" + nt.K
}

func isDosNode(s *Step) bool {
	return s.Ax == "descendant-or-self" && s.Nt.K == "node" && len(s.Preds) == 0
}

func printStep(s *Step, o Opts) string {
	var b strings.Builder
	switch {
	case o.Abbrev && len(s.Preds) == 0 && s.Ax == "self" && s.Nt.K == "node":
		return "."
	case o.Abbrev && len(s.Preds) == 0 && s.Ax == "parent" && s.Nt.K == "node":
		return ".."
	case o.Abbrev && s.Ax == "child":
		b.WriteString(printNT(s.Nt))
	case o.Abbrev && s.Ax == "attribute":
		b.WriteString("@" + printNT(s.Nt))
	default:
		b.WriteString(s.Ax + "::" + printNT(s.Nt))
	}
	for _, p := range s.Preds {
		b.WriteString("[" + Print(p, o) + "]")
	}
	return b.String()
}

// printSteps renders  s1/s2/...  ; lead is what precedes the first step
// ("" for a relative path, "/" after a root or a primary expression).
func printSteps(steps []Step, lead string, o Opts) string {
	var b strings.Builder
	sep := lead
	for i := range steps {
		s := &steps[i]
		// '//' abbreviates '/descendant-or-self::node()/' : needs a following step
		if o.Abbrev && isDosNode(s) && i+1 < len(steps) && sep != "" && !strings.HasSuffix(sep, "//") {
			sep = "//"
			continue
		}
		b.WriteString(sep)
		b.WriteString(printStep(s, o))
		sep = "/"
	}
	return b.String()
}

func wrap(e *Expr, min int, o Opts) string {
	s := Print(e, o)
	if level(e) < min {
		return "(" + s + ")"
	}
	return s
}

// Print renders e.
func Print(e *Expr, o Opts) string {
	switch e.T {
	case "path":
		if e.Abs {
			if len(e.Steps) == 0 {
				return "/"
			}
			return printSteps(e.Steps, "/", o)
		}
		return printSteps(e.Steps, "", o)
	case "filter":
		var b strings.Builder
		if e.E.T == "call" && len(e.Preds) == 0 {
			b.WriteString(Print(e.E, o))
		} else {
			b.WriteString("(" + Print(e.E, o) + ")")
		}
		for _, p := range e.Preds {
			b.WriteString("[" + Print(p, o) + "]")
		}
		b.WriteString(printSteps(e.Steps, "/", o))
		return b.String()
	case "union":
		return wrap(e.L, 8, o) + o.Space + "|" + o.Space + wrap(e.R, 9, o)
	case "seqstep":
		var b strings.Builder
		b.WriteString(wrap(e.Base, 9, o))
		b.WriteString("/(")
		for i := range e.Alts {
			if i > 0 {
				b.WriteString("," + o.Space)
			}
			b.WriteString(printStep(&e.Alts[i], o))
		}
		b.WriteString(")")
		return b.String()
	case "bin":
		p := prec(e.Op)
		sp := o.Space
		l := wrap(e.L, p, o)
		r := wrap(e.R, p+1, o)
		// lexical separation: names/numbers must not merge with word
		// operators, '-' must not merge into a preceding name, and '*'
		// after a name-like token would be read as part of the name by a
		// longest-match scanner only if it were a name character (it is
		// not in XPath) -- keep a blank around word operators and '-'.
		if sp == "" {
			switch e.Op {
			case "or", "and", "div", "mod", "-", "*":
				sp = " "
			case "<", "<=", ">", ">=", "=", "!=", "+":
				sp = ""
			}
		}
		return l + sp + e.Op + sp + r
	case "neg":
		return "-" + wrap(e.E, 7, o)
	case "var":
		return "$" + e.N
	case "lit":
		return quote(e.S)
	case "num":
		if o.LongNum && e.V.C == "fin" {
			t := NumString(&Num{C: "fin", N: e.V.N, K: e.V.K})
			if !strings.Contains(t, ".") {
				t += "."
			}
			t = "0000000000000000000000" + t + "000000000000000000000000"
			if e.V.Neg {
				t = "-" + t
			}
			return t
		}
		return NumString(e.V)
	case "call":
		var b strings.Builder
		b.WriteString(e.F + "(")
		for i, a := range e.Args {
			if i > 0 {
				b.WriteString("," + o.Space)
			}
			b.WriteString(Print(a, o))
		}
		b.WriteString(")")
		return b.String()
	}
	return "?" + e.T
}

// MarshalJSON writes exactly the fields of the corresponding XSem.tla
// constructor, so that ndJsonDeserialize yields the specification's records.
func (e *Expr) MarshalJSON() ([]byte, error) {
	m := map[string]interface{}{"t": e.T}
	seq := func(x []*Expr) []*Expr {
		if x == nil {
			return []*Expr{}
		}
		return x
	}
	steps := func(x []Step) []Step {
		if x == nil {
			return []Step{}
		}
		return x
	}
	switch e.T {
	case "path":
		m["abs"] = e.Abs
		m["steps"] = steps(e.Steps)
	case "filter":
		m["e"] = e.E
		m["preds"] = seq(e.Preds)
		m["steps"] = steps(e.Steps)
	case "union":
		m["l"], m["r"] = e.L, e.R
	case "seqstep":
		m["base"] = e.Base
		m["alts"] = steps(e.Alts)
	case "bin":
		m["op"], m["l"], m["r"] = e.Op, e.L, e.R
	case "neg":
		m["e"] = e.E
	case "var":
		m["n"] = e.N
	case "lit":
		m["s"] = e.S
	case "num":
		m["v"] = e.V
	case "call":
		m["f"] = e.F
		m["args"] = seq(e.Args)
	}
	return json.Marshal(m)
}

// MarshalJSON always writes preds (possibly empty).
func (s Step) MarshalJSON() ([]byte, error) {
	p := s.Preds
	if p == nil {
		p = []*Expr{}
	}
	return json.Marshal(map[string]interface{}{"ax": s.Ax, "nt": s.Nt, "preds": p})
}
