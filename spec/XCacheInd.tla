----------------------------- MODULE XCacheInd -----------------------------
(***************************************************************************)
(* The sequential abstraction of the loading cache (one get = one atomic   *)
(* step: what XCache.tla's lock discipline makes of each call) with an     *)
(* INDUCTIVE invariant, discharged by Apalache for EVERY capacity and any  *)
(* number of gets (TLC covers capacities 0..3 with interleavings):         *)
(*     IndInv == the content holds only good keys, every entry maps a key  *)
(*               to its own load, and never more entries than the capacity *)
(* Apalache:  --cinit=ConstInit --init=IndInit --inv=IndInv --length=1     *)
(***************************************************************************)
EXTENDS Integers, FiniteSets

CONSTANTS
    \* @type: Set(Str);
    Keys,
    \* @type: Set(Str);
    BadKeys,
    \* @type: Int;
    Cap

VARIABLES
    \* @type: Set(Str);
    content,
    \* @type: Str -> Str;
    value

ConstInit ==
    /\ Keys = {"k1", "k2", "k3", "k4", "k5", "k6", "k7", "k8", "bad1", "bad2"}
    /\ BadKeys = {"bad1", "bad2"}
    /\ Cap \in 0 .. 8

\* @type: (Str) => Str;
Load(k) == k

Get(k) ==
    IF k \in BadKeys THEN UNCHANGED <<content, value>>
    ELSE IF k \in content THEN UNCHANGED <<content, value>>
    ELSE IF Cap > 0 /\ Cardinality(content) >= Cap
         THEN content' = {k} /\ value' = [x \in Keys |-> IF x = k THEN Load(k) ELSE value[x]]
         ELSE content' = content \cup {k} /\ value' = [x \in Keys |-> IF x = k THEN Load(k) ELSE value[x]]

Init == content = {} /\ value = [x \in Keys |-> ""]
Next == \E k \in Keys : Get(k)

IndInv ==
    /\ content \subseteq Keys \ BadKeys
    /\ \A k \in content : value[k] = Load(k)
    /\ Cap > 0 => Cardinality(content) <= Cap

\* any state satisfying the invariant (for the inductive step)
IndInit ==
    /\ content \in SUBSET Keys
    /\ value \in [Keys -> Keys \cup {""}]
    /\ IndInv
=============================================================================
