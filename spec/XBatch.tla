------------------------------- MODULE XBatch -------------------------------
(***************************************************************************)
(* Flow B validator for stateless events.  The harness drives the REAL     *)
(* engine on seeded random documents / expressions (larger than the        *)
(* exhaustive models reach) and records one self-contained event per call: *)
(* document, expression AST, context node and what the engine returned.    *)
(* This specification reads the trace and checks every event against the   *)
(* denotation of XSem.  Events are independent, so the trace is explored   *)
(* as a two-level tree (chunks, then lines) to use all TLC workers; every  *)
(* line is visited exactly once.  Events the specification does not allow  *)
(* are written to VERIF_OUT with the reply the specification requires.     *)
(***************************************************************************)
EXTENDS XSem, Json, CSV, IOUtils

CONSTANT Chunk

Trace == ndJsonDeserialize(IOEnv.VERIF_TRACE)
OutFile == IOEnv.VERIF_OUT

VARIABLES ph, l
vars == <<ph, l>>

Init == ph = 0 /\ l = 0
Next ==
    \/ /\ ph = 0 /\ ph' = 1
       /\ l' \in {c \in 1 .. Len(Trace) : (c - 1) % Chunk = 0}
    \/ /\ ph = 1 /\ ph' = 2
       /\ l' \in l .. (IF l + Chunk - 1 > Len(Trace) THEN Len(Trace) ELSE l + Chunk - 1)
Spec == Init /\ [][Next]_vars

DocOf(code) == [i \in 1 .. Len(code) |->
                   Node(code[i][1], code[i][2], code[i][5], code[i][6], code[i][3], code[i][4])]

HasField(r, f) == f \in DOMAIN r

EnvOf(ev) ==
    LET d == DocOf(ev.d)
    IN IF HasField(ev, "ns")
       THEN [d |-> d, map |-> TRUE, ns |-> ev.ns, uri |-> ~(HasField(ev, "nav") /\ ev.nav = "plain")]
       ELSE [d |-> d, map |-> FALSE, ns |-> <<>>, uri |-> ~(HasField(ev, "nav") /\ ev.nav = "plain")]

NoDup(s) == \A i, j \in 1 .. Len(s) : i # j => s[i] # s[j]

ValueJson(v) ==
    CASE v.t = "ns" -> [t |-> "ns", v |-> v.v]
      [] OTHER -> v

\* "" when the event is allowed, otherwise the failure class
Verdict(ev) ==
    LET g == EnvOf(ev)
        want == Eval(ev.e, g, Ctx(ev.ctx))
        mustFail == g.map /\ ~(PrefixesOf(ev.e) \subseteq DOMAIN g.ns)   \* an unbound prefix: Compile must fail
    IN IF mustFail THEN (IF HasField(ev, "panic") /\ ev.panic = "compile" THEN "" ELSE "compile-accepted-unbound-prefix")
       ELSE IF Bad(want) THEN ""                 \* outside the exact model: not checked
       ELSE IF HasField(ev, "panic") THEN "panic:" \o ev.panic
       ELSE IF want.t = "ns"
       THEN IF ~HasField(ev, "ids") THEN "type"
            ELSE IF SeqToSet(ev.ids) # want.v THEN "set"
            ELSE IF ev.m = "once" /\ ~NoDup(ev.ids) THEN "dup"
            ELSE IF ev.m = "seq" /\ ev.ids # Asc(g.d, want.v) THEN "order"
            ELSE ""
       ELSE IF ~HasField(ev, "val") THEN "type"
       ELSE IF ev.val.t # want.t THEN "type"
       ELSE IF want.t = "n"
            THEN (IF IsInx(want.v) THEN ""       \* outside the exact number model: not checked
                  ELSE IF ev.val.v.c # want.v.c THEN "value"
                  ELSE IF want.v.c = "nan" THEN ""
                  ELSE IF want.v.c = "inf" THEN (IF ev.val.v.neg = want.v.neg THEN "" ELSE "value")
                  ELSE IF ev.val.v.neg = want.v.neg /\ ev.val.v.n = want.v.n /\ ev.val.v.k = want.v.k THEN "" ELSE "value")
       ELSE IF ev.val.v = want.v THEN "" ELSE "value"

WantJson(ev) ==
    LET g == EnvOf(ev)
        want == Eval(ev.e, g, Ctx(ev.ctx))
    IN IF want.t = "ns" THEN Asc(g.d, want.v) ELSE IF Bad(want) THEN VS("?") ELSE want

Validate ==
    ph = 2 =>
      LET ev == Trace[l]
          g0 == EnvOf(ev)
          v == IF g0.map /\ ~(PrefixesOf(ev.e) \subseteq DOMAIN g0.ns) THEN Verdict(ev)
               ELSE IF Tainted(ev.e, g0, Ctx(ev.ctx)) THEN "" ELSE Verdict(ev)
      IN IF v = "" THEN TRUE
         ELSE CSVWrite("%1$s", <<ToJson([l |-> l, fail |-> v, want |-> WantJson(ev)])>>, OutFile)
=============================================================================
