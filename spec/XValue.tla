------------------------------ MODULE XValue ------------------------------
(***************************************************************************)
(* XPath 1.0 values: booleans, strings, numbers, node-sets, and the        *)
(* conversions, comparison matrix, arithmetic and string library on them.  *)
(*                                                                         *)
(* Numbers.  IEEE 754 doubles are modelled EXACTLY on the domain           *)
(*     NaN, +Infinity, -Infinity, (-1)^neg * n / 2^k  (n, k naturals)      *)
(* i.e. signed dyadic rationals including both zeros.  On this domain      *)
(* + - * comparison floor ceiling round and every division whose exact     *)
(* result is again dyadic are exact in IEEE arithmetic as long as the      *)
(* magnitudes stay below 2^53, so exact rational arithmetic plus the IEEE  *)
(* special-value rules IS the IEEE result.  An operation that leaves the   *)
(* domain (1 div 3, a decimal fraction such as 0.1, or a magnitude beyond  *)
(* the model bound) yields Inexact; cases in which Inexact occurs are      *)
(* outside the model and are never emitted as expectations.                *)
(***************************************************************************)
EXTENDS Integers, Sequences, FiniteSets, TLC

(***************************************************************************)
(* Numbers                                                                 *)
(***************************************************************************)
MaxMag == 1073741823          \* 2^30 - 1: TLC integers are 32 bit
MaxK   == 24

NaN      == [c |-> "nan", neg |-> FALSE, n |-> 0, k |-> 0]
Inf(neg) == [c |-> "inf", neg |-> neg,   n |-> 0, k |-> 0]
Inexact  == [c |-> "inx", neg |-> FALSE, n |-> 0, k |-> 0]

RECURSIVE Pow2(_)
Pow2(k) == IF k = 0 THEN 1 ELSE 2 * Pow2(k - 1)

RECURSIVE NormNK(_, _)
NormNK(n, k) == IF k > 0 /\ n % 2 = 0 THEN NormNK(n \div 2, k - 1) ELSE <<n, k>>

Fin(neg, n, k) ==
    LET nk == NormNK(n, k)
    IN IF nk[1] > MaxMag \/ nk[2] > MaxK THEN Inexact
       ELSE [c |-> "fin", neg |-> neg, n |-> nk[1], k |-> nk[2]]

NumInt(i) == IF i < 0 THEN Fin(TRUE, 0 - i, 0) ELSE Fin(FALSE, i, 0)
Zero(neg) == [c |-> "fin", neg |-> neg, n |-> 0, k |-> 0]

IsNaN(x) == x.c = "nan"
IsInf(x) == x.c = "inf"
IsFin(x) == x.c = "fin"
IsInx(x) == x.c = "inx"
IsZero(x) == x.c = "fin" /\ x.n = 0
IsInt(x) == x.c = "fin" /\ x.k = 0

\* safe multiplication of naturals: -1 signals overflow of the model bound
SafeMul(a, b) == IF a = 0 \/ b = 0 THEN 0
                 ELSE IF a > MaxMag \div b THEN 0 - 1 ELSE a * b

NumNeg(x) ==
    CASE x.c = "nan" -> NaN
      [] x.c = "inx" -> Inexact
      [] x.c = "inf" -> Inf(~x.neg)
      [] x.c = "fin" -> [x EXCEPT !.neg = ~x.neg]

\* signed numerator of a finite x scaled to denominator 2^K; 0-MaxMag-1 = overflow
Scaled(x, K) ==
    LET m == SafeMul(x.n, Pow2(K - x.k))
    IN IF m < 0 THEN 0 - MaxMag - 1 ELSE IF x.neg THEN 0 - m ELSE m

NumAdd(x, y) ==
    IF IsInx(x) \/ IsInx(y) THEN Inexact
    ELSE IF IsNaN(x) \/ IsNaN(y) THEN NaN
    ELSE IF IsInf(x) /\ IsInf(y) THEN (IF x.neg = y.neg THEN x ELSE NaN)
    ELSE IF IsInf(x) THEN x
    ELSE IF IsInf(y) THEN y
    ELSE LET K  == IF x.k > y.k THEN x.k ELSE y.k
             a  == Scaled(x, K)
             b  == Scaled(y, K)
         IN IF a = 0 - MaxMag - 1 \/ b = 0 - MaxMag - 1 THEN Inexact
            ELSE LET s == a + b
                 IN IF s = 0 THEN Zero(x.neg /\ y.neg)   \* IEEE: -0 only for (-0)+(-0)
                    ELSE IF s < 0 THEN Fin(TRUE, 0 - s, K) ELSE Fin(FALSE, s, K)

NumSub(x, y) == NumAdd(x, NumNeg(y))

NumMul(x, y) ==
    IF IsInx(x) \/ IsInx(y) THEN Inexact
    ELSE IF IsNaN(x) \/ IsNaN(y) THEN NaN
    ELSE LET sg == (x.neg # y.neg)
         IN IF IsInf(x) \/ IsInf(y)
            THEN (IF IsZero(x) \/ IsZero(y) THEN NaN ELSE Inf(sg))
            ELSE LET m == SafeMul(x.n, y.n)
                 IN IF m < 0 THEN Inexact ELSE Fin(sg, m, x.k + y.k)

\* odd part / power-of-two part of a positive natural
RECURSIVE TwoExp(_)
TwoExp(n) == IF n % 2 = 0 THEN 1 + TwoExp(n \div 2) ELSE 0
OddPart(n) == n \div Pow2(TwoExp(n))

NumDiv(x, y) ==
    IF IsInx(x) \/ IsInx(y) THEN Inexact
    ELSE IF IsNaN(x) \/ IsNaN(y) THEN NaN
    ELSE LET sg == (x.neg # y.neg)
         IN IF IsInf(x) THEN (IF IsInf(y) THEN NaN ELSE Inf(sg))
            ELSE IF IsInf(y) THEN Zero(sg)
            ELSE IF IsZero(y) THEN (IF IsZero(x) THEN NaN ELSE Inf(sg))
            ELSE IF IsZero(x) THEN Zero(sg)
            ELSE \* (nx / 2^kx) / (ny / 2^ky) = nx * 2^ky / (o * 2^(j + kx)),  ny = o * 2^j
                 LET j == TwoExp(y.n)
                     o == OddPart(y.n)
                 IN IF x.n % o # 0 THEN Inexact
                    ELSE LET m == SafeMul(x.n \div o, Pow2(y.k))
                         IN IF m < 0 THEN Inexact ELSE Fin(sg, m, x.k + j)

\* mod is specified (and claimed) only for non-negative integers with a
\* non-zero divisor; everything else is outside the model
NumMod(x, y) ==
    IF IsInt(x) /\ IsInt(y) /\ ~x.neg /\ ~y.neg /\ y.n # 0
    THEN NumInt(x.n % y.n) ELSE Inexact

NumFloor(x) ==
    IF ~IsFin(x) THEN x
    ELSE LET q == x.n \div Pow2(x.k)
             exact == (x.n % Pow2(x.k) = 0)
         IN IF exact THEN x
            ELSE IF x.neg THEN Fin(TRUE, q + 1, 0) ELSE Fin(FALSE, q, 0)

NumCeil(x) ==
    IF ~IsFin(x) THEN x
    ELSE LET q == x.n \div Pow2(x.k)
             exact == (x.n % Pow2(x.k) = 0)
         IN IF exact THEN x
            ELSE IF x.neg THEN Fin(TRUE, q, 0)    \* ceiling(-0.5) = -0
                 ELSE Fin(FALSE, q + 1, 0)

\* XPath round: the integer closest to x, ties towards +Infinity;
\* x in [-0.5, -0] gives -0.
NumRound(x) ==
    IF ~IsFin(x) THEN x
    ELSE IF x.k = 0 THEN x
    ELSE LET f == NumFloor(NumAdd(x, Fin(FALSE, 1, 1)))
         IN IF IsZero(f) /\ x.neg THEN Zero(TRUE) ELSE f

\* three-way comparison of two finite-or-infinite numbers: -1, 0, 1
NumCmp(x, y) ==
    IF IsInf(x) /\ IsInf(y) THEN (IF x.neg = y.neg THEN 0 ELSE IF x.neg THEN 0 - 1 ELSE 1)
    ELSE IF IsInf(x) THEN (IF x.neg THEN 0 - 1 ELSE 1)
    ELSE IF IsInf(y) THEN (IF y.neg THEN 1 ELSE 0 - 1)
    ELSE LET K == IF x.k > y.k THEN x.k ELSE y.k
             a == Scaled(x, K)
             b == Scaled(y, K)
         IN IF a < b THEN 0 - 1 ELSE IF a > b THEN 1 ELSE 0

NumCmpDefined(x, y) ==
    /\ ~IsInx(x) /\ ~IsInx(y)
    /\ (IsFin(x) /\ IsFin(y)) =>
          LET K == IF x.k > y.k THEN x.k ELSE y.k
          IN Scaled(x, K) # 0 - MaxMag - 1 /\ Scaled(y, K) # 0 - MaxMag - 1

RelOps == {"<", "<=", ">", ">="}
EqOps  == {"=", "!="}
CmpOps == RelOps \cup EqOps

\* IEEE comparison: anything involving NaN is false except "!="
NumCompare(op, x, y) ==
    IF ~NumCmpDefined(x, y) THEN Assert(FALSE, <<"number outside the exact model in a comparison", x, y>>)
    ELSE IF IsNaN(x) \/ IsNaN(y) THEN op = "!="
    ELSE LET c == NumCmp(x, y)
         IN CASE op = "="  -> c = 0
              [] op = "!=" -> c # 0
              [] op = "<"  -> c < 0
              [] op = "<=" -> c <= 0
              [] op = ">"  -> c > 0
              [] op = ">=" -> c >= 0

(***************************************************************************)
(* Strings (TLA+ strings; characters are SubSeq(s,i,i))                    *)
(***************************************************************************)
Ch(s, i) == SubSeq(s, i, i)
DigitVal == [c \in {"0", "1", "2", "3", "4", "5", "6", "7", "8", "9"} |->
               CASE c = "0" -> 0 [] c = "1" -> 1 [] c = "2" -> 2 [] c = "3" -> 3
                 [] c = "4" -> 4 [] c = "5" -> 5 [] c = "6" -> 6 [] c = "7" -> 7
                 [] c = "8" -> 8 [] c = "9" -> 9]
Digits == DOMAIN DigitVal
IsDigitCh(c) == c \in Digits
DigitCh(i) == CHOOSE c \in Digits : DigitVal[c] = i
\* XML whitespace: space, tab, newline, carriage return
IsWS(c) == c \in {" ", "\t", "\n", "\r"}

RECURSIVE LTrim(_)
LTrim(s) == IF Len(s) > 0 /\ IsWS(Ch(s, 1)) THEN LTrim(SubSeq(s, 2, Len(s))) ELSE s
RECURSIVE RTrim(_)
RTrim(s) == IF Len(s) > 0 /\ IsWS(Ch(s, Len(s))) THEN RTrim(SubSeq(s, 1, Len(s) - 1)) ELSE s
Trim(s) == RTrim(LTrim(s))

\* index of the first occurrence of t in s (1-based), 0 if none; t = "" gives 1
RECURSIVE IndexFrom(_, _, _)
IndexFrom(s, t, i) ==
    IF i + Len(t) - 1 > Len(s) THEN 0
    ELSE IF SubSeq(s, i, i + Len(t) - 1) = t THEN i
    ELSE IndexFrom(s, t, i + 1)
IndexOf(s, t) == IndexFrom(s, t, 1)

StrContains(s, t)   == IndexOf(s, t) > 0
StrStartsWith(s, t) == Len(t) <= Len(s) /\ SubSeq(s, 1, Len(t)) = t
StrEndsWith(s, t)   == Len(t) <= Len(s) /\ SubSeq(s, Len(s) - Len(t) + 1, Len(s)) = t
StrBefore(s, t) == LET i == IndexOf(s, t) IN IF i = 0 THEN "" ELSE SubSeq(s, 1, i - 1)
StrAfter(s, t)  == LET i == IndexOf(s, t) IN IF i = 0 THEN "" ELSE SubSeq(s, i + Len(t), Len(s))

\* normalize-space: strip, collapse runs of whitespace to one space
RECURSIVE NormWS(_, _)
NormWS(s, i) ==
    IF i > Len(s) THEN ""
    ELSE IF IsWS(Ch(s, i))
         THEN (IF i < Len(s) /\ IsWS(Ch(s, i + 1)) THEN NormWS(s, i + 1) ELSE " " \o NormWS(s, i + 1))
         ELSE Ch(s, i) \o NormWS(s, i + 1)
NormalizeSpace(s) == NormWS(Trim(s), 1)

\* translate(s, from, to)
RECURSIVE FirstIdx(_, _, _)
FirstIdx(s, c, i) == IF i > Len(s) THEN 0 ELSE IF Ch(s, i) = c THEN i ELSE FirstIdx(s, c, i + 1)
RECURSIVE TranslateFrom(_, _, _, _)
TranslateFrom(s, from, to, i) ==
    IF i > Len(s) THEN ""
    ELSE LET j == FirstIdx(from, Ch(s, i), 1)
         IN (IF j = 0 THEN Ch(s, i) ELSE IF j <= Len(to) THEN Ch(to, j) ELSE "")
            \o TranslateFrom(s, from, to, i + 1)
Translate(s, from, to) == TranslateFrom(s, from, to, 1)

Upper == <<"A","B","C","D","E","F","G","H","I","J","K","L","M","N","O","P","Q","R","S","T","U","V","W","X","Y","Z">>
Lower == <<"a","b","c","d","e","f","g","h","i","j","k","l","m","n","o","p","q","r","s","t","u","v","w","x","y","z">>
LowerCh(c) == IF \E i \in 1 .. 26 : Upper[i] = c THEN Lower[CHOOSE i \in 1 .. 26 : Upper[i] = c] ELSE c
RECURSIVE LowerFrom(_, _)
LowerFrom(s, i) == IF i > Len(s) THEN "" ELSE LowerCh(Ch(s, i)) \o LowerFrom(s, i + 1)
LowerCase(s) == LowerFrom(s, 1)

RECURSIVE JoinSeq(_, _)
JoinSeq(ss, sep) == IF ss = <<>> THEN "" ELSE IF Len(ss) = 1 THEN ss[1]
                    ELSE ss[1] \o sep \o JoinSeq(Tail(ss), sep)

\* substring(s, start, len): characters at positions p with
\*   round(start) <= p < round(start) + round(len)       (XPath 1.0 4.2)
\* start/len are Nums; hasLen FALSE = two-argument form.  NaN makes every
\* comparison false; infinities behave as in IEEE.
SubstringSpec(s, start, hasLen, len) ==
    LET rs == NumRound(start)
        re == IF hasLen THEN NumAdd(rs, NumRound(len)) ELSE Inf(FALSE)
        Keep(p) == /\ ~IsNaN(rs) /\ ~IsNaN(re)
                   /\ NumCmp(rs, NumInt(p)) <= 0
                   /\ NumCmp(NumInt(p), re) < 0
        RECURSIVE Build(_)
        Build(p) == IF p > Len(s) THEN "" ELSE (IF Keep(p) THEN Ch(s, p) ELSE "") \o Build(p + 1)
    IN Build(1)

(***************************************************************************)
(* string -> number.  XPath Number with optional surrounding whitespace:   *)
(*    S? '-'? ( Digits ('.' Digits?)? | '.' Digits ) S?                     *)
(***************************************************************************)
RECURSIVE DigitsEnd(_, _)
\* index just past the run of digits starting at i
DigitsEnd(s, i) == IF i <= Len(s) /\ IsDigitCh(Ch(s, i)) THEN DigitsEnd(s, i + 1) ELSE i

RECURSIVE DecVal(_, _, _, _)
\* value of digit string s[i..j-1] as a natural, -1 on overflow
DecVal(s, i, j, acc) ==
    IF i >= j THEN acc
    ELSE IF acc < 0 \/ acc > (MaxMag - 9) \div 10 THEN 0 - 1
    ELSE DecVal(s, i + 1, j, acc * 10 + DigitVal[Ch(s, i)])

RECURSIVE Pow10(_)
Pow10(k) == IF k = 0 THEN 1 ELSE 10 * Pow10(k - 1)
RECURSIVE Pow5(_)
Pow5(k) == IF k = 0 THEN 1 ELSE 5 * Pow5(k - 1)

\* ip . fp  with f fractional digits: (ip * 10^f + fp) / 10^f ; dyadic iff
\* 5^f divides the numerator
DecToNum(neg, ip, fp, f) ==
    IF ip < 0 \/ fp < 0 \/ f > 9 THEN Inexact
    ELSE LET sc == SafeMul(ip, Pow10(f))
         IN IF sc < 0 \/ sc + fp > MaxMag THEN Inexact
            ELSE LET num == sc + fp
                 IN IF num = 0 THEN Zero(neg)
                    ELSE IF num % Pow5(f) # 0 THEN Inexact
                    ELSE Fin(neg, num \div Pow5(f), f)

StrToNum(str) ==
    LET s   == Trim(str)
        neg == Len(s) > 0 /\ Ch(s, 1) = "-"
        b   == IF neg THEN 2 ELSE 1
        e1  == DigitsEnd(s, b)                         \* end of integer digits
        dot == e1 <= Len(s) /\ Ch(s, e1) = "."
        e2  == IF dot THEN DigitsEnd(s, e1 + 1) ELSE e1  \* end of fraction digits
        nInt == e1 - b
        nFra == IF dot THEN e2 - e1 - 1 ELSE 0
    IN IF e2 # Len(s) + 1 THEN NaN
       ELSE IF nInt = 0 /\ nFra = 0 THEN NaN
       ELSE DecToNum(neg, DecVal(s, b, e1, 0), IF dot THEN DecVal(s, e1 + 1, e2, 0) ELSE 0, nFra)

(***************************************************************************)
(* number -> string (XPath 1.0 string()): NaN, Infinity, -Infinity,        *)
(* integers without point, otherwise minimal decimal; no exponent; both    *)
(* zeros print "0".  Dyadic rationals have terminating decimal expansions. *)
(***************************************************************************)
RECURSIVE NatToStr(_)
NatToStr(n) == IF n < 10 THEN DigitCh(n) ELSE NatToStr(n \div 10) \o DigitCh(n % 10)

RECURSIVE FracDigits(_, _)
\* decimal digits of r / den, 0 <= r < den, until the remainder is zero
FracDigits(r, den) ==
    IF r = 0 THEN ""
    ELSE LET t == r * 10 IN DigitCh(t \div den) \o FracDigits(t % den, den)

NumToStrDefined(x) ==
    IsFin(x) => (x.k <= 20 /\ x.n < 100000000)

NumToStr(x) ==
    CASE x.c = "nan" -> "NaN"
      [] x.c = "inf" -> IF x.neg THEN "-Infinity" ELSE "Infinity"
      [] x.c = "inx" -> Assert(FALSE, "string() of a number outside the exact model")
      [] x.c = "fin" ->
           IF x.n = 0 THEN "0"
           ELSE LET den == Pow2(x.k)
                    ip  == x.n \div den
                    r   == x.n % den
                IN (IF x.neg THEN "-" ELSE "")
                   \o NatToStr(ip)
                   \o (IF r = 0 THEN "" ELSE "." \o FracDigits(r, den))

(***************************************************************************)
(* Tagged values                                                           *)
(***************************************************************************)
VB(b) == [t |-> "b", v |-> b]
VS(s) == [t |-> "s", v |-> s]
VN(x) == [t |-> "n", v |-> x]
VNS(S) == [t |-> "ns", v |-> S]
VErr(m) == [t |-> "err", v |-> m]     \* evaluation outside the specified fragment

IsB(x) == x.t = "b"
IsS(x) == x.t = "s"
IsN(x) == x.t = "n"
IsNS(x) == x.t = "ns"
IsErr(x) == x.t = "err"

=============================================================================
