------------------------------- MODULE MC_Api -------------------------------
(***************************************************************************)
(* The API session machine of XApi.tla as a TLC-explored state machine.    *)
(* Clients open iterators on one compiled expression (Select / Evaluate at *)
(* a context node) and pull them (MoveNext) in any interleaving; the       *)
(* abstract machine answers as the specification allows:                   *)
(*   mode "seq"  : the next node of the denotation in document order       *)
(*   mode "once" : any node of the denotation not yet delivered            *)
(*   mode "set"  : any node of the denotation (repeats tolerated), FALSE   *)
(*                 only when every node has been delivered                 *)
(* Every step is ALSO run through ApiStep with the fresh observation an    *)
(* implementation that delivers in document order would give - the trace   *)
(* validator must accept every behaviour the abstract machine can show in  *)
(* "seq" mode (ValidatorAcceptsSpec), and the protocol properties hold:    *)
(*   StickyFalse       once MoveNext returned FALSE it returns FALSE       *)
(*   GivenInTarget     nothing outside the denotation is ever delivered    *)
(*   OnceNoDup         "once"/"seq": no node is delivered twice            *)
(*   CompleteAtFalse   FALSE is returned only when everything was given    *)
(*   Purity            the target of an iterator is a function of          *)
(*                     (expression, document, context) - by construction;  *)
(*                     checked as: two iterators opened at the same        *)
(*                     context have the same target                        *)
(***************************************************************************)
EXTENDS XApi, XCatalog, TLC

CONSTANTS MaxIters, MaxCalls, Mode, DocId, ExprId

Exprs == << Path(TRUE, <<Step("descendant-or-self", NTNode, <<>>), Step("child", NTName("b"), <<>>)>>),      \* //b
            Path(FALSE, <<Step("child", NTAny, <<>>)>>),                                                       \* *
            Union(Path(FALSE, <<Step("child", NTAny, <<>>)>>), Path(FALSE, <<Step("following-sibling", NTAny, <<>>)>>)),
            Path(FALSE, <<Step("ancestor-or-self", NTAny, <<>>)>>) >>
Expr == Exprs[ExprId]
Doc == Catalogue[DocId]
G == Env(Doc)

VARIABLES its,      \* sequence of [c, target, given (seq), done, falses (number of FALSE replies)]
          calls,
          vst       \* the validator's session state, fed with the same events
vars == <<its, calls, vst>>

Target(c) == Eval(Expr, G, Ctx(c)).v
FreshOf(c) == [ids |-> Asc(Doc, Target(c))]
\* the validator sees context slots; here a slot is a node id
FreshAll == [c \in 1 .. Len(Doc) |-> FreshOf(c)]

Init == its = <<>> /\ calls = 0 /\ vst = InitSession

Open ==
    /\ Len(its) < MaxIters /\ calls < MaxCalls
    /\ \E c \in 1 .. Len(Doc) :
         /\ its' = Append(its, [c |-> c, target |-> Target(c), given |-> <<>>, done |-> FALSE, falses |-> 0])
         /\ vst' = ApiStep(vst, [op |-> "Select", ctx |-> c], FreshAll)
    /\ calls' = calls + 1

Deliver(k) ==
    LET it == its[k]
        cand == CASE Mode = "seq"  -> IF Len(it.given) < Cardinality(it.target) THEN {Asc(Doc, it.target)[Len(it.given) + 1]} ELSE {}
                  [] Mode = "once" -> it.target \ SeqToSet(it.given)
                  [] Mode = "set"  -> it.target
    IN /\ ~it.done /\ calls < MaxCalls /\ Len(it.given) < Cardinality(it.target) + 2
       /\ \E n \in cand :
            /\ its' = [its EXCEPT ![k].given = Append(@, n)]
            /\ vst' = IF Mode = "seq" THEN ApiStep(vst, [op |-> "MoveNext", it |-> k, ret |-> TRUE, cur |-> n], FreshAll) ELSE vst
       /\ calls' = calls + 1

Finish(k) ==
    LET it == its[k] IN
    /\ calls < MaxCalls
    /\ (it.done \/ SeqToSet(it.given) = it.target)
    /\ its' = [its EXCEPT ![k].done = TRUE, ![k].falses = @ + 1]
    /\ vst' = IF Mode = "seq" THEN ApiStep(vst, [op |-> "MoveNext", it |-> k, ret |-> FALSE], FreshAll) ELSE vst
    /\ calls' = calls + 1

Next == Open \/ \E k \in 1 .. Len(its) : Deliver(k) \/ Finish(k)
Spec == Init /\ [][Next]_vars

GivenInTarget   == \A k \in 1 .. Len(its) : SeqToSet(its[k].given) \subseteq its[k].target
OnceNoDup       == Mode \in {"seq", "once"} => \A k \in 1 .. Len(its) : NoDup(its[k].given)
CompleteAtFalse == \A k \in 1 .. Len(its) : its[k].done => SeqToSet(its[k].given) = its[k].target
SeqOrder        == Mode = "seq" => \A k \in 1 .. Len(its) : IsPrefix(its[k].given, Asc(Doc, its[k].target))
Purity          == \A j, k \in 1 .. Len(its) : its[j].c = its[k].c => its[j].target = its[k].target
ValidatorAcceptsSpec == Mode = "seq" => vst.err = ""
\* action property: a finished iterator never delivers again
StickyFalse == [][\A k \in 1 .. Len(its) : its[k].done => (its'[k].done /\ its'[k].given = its[k].given)]_vars
=============================================================================
