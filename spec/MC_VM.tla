-------------------------------- MODULE MC_VM --------------------------------
(***************************************************************************)
(* Documents x predicate-free paths, explored with the implementation-     *)
(* shaped model XQueryVM:                                                  *)
(*   VMRefines  the nodes the modelled iterator pipeline delivers are, as  *)
(*              a set, exactly the denotation of XSem, from every context  *)
(*              (design-level verification of build.go's translation and   *)
(*              query.go's walks), and the pipeline terminates;            *)
(*   Emit       the predicted delivery sequence and cursor movements, for  *)
(*              the conformance run against the real engine.               *)
(***************************************************************************)
EXTENDS XQueryVM, XCatalog, Json, CSV, IOUtils

CONSTANTS MaxNodes, MaxSteps, CatSteps, CatIds, Deviations, ElemNames, AttrNames, TextVals, WithComment, StepAxes, TestKinds, TestNames

VARIABLES doc, grow, path
vars == <<doc, grow, path>>
OutFile == IOEnv.VERIF_OUT

NewNodes(d) ==
    UNION { {Node("elem", n, "", "", p, "") : n \in ElemNames}
            \cup {Node("attr", n, "", "", p, "1") : n \in AttrNames}
            \cup {Node("text", "", "", "", p, v) : v \in TextVals}
            \cup (IF WithComment THEN {Node("comment", "", "", "", p, "k")} ELSE {})
          : p \in Ids(d) }
Tests == {NT(k, "", "") : k \in TestKinds} \cup {NTName(n) : n \in TestNames}
StepAlphabet == {Step(ax, nt, <<>>) : ax \in StepAxes, nt \in Tests}

Init ==
    /\ path = Path(FALSE, <<>>)
    /\ \/ MaxNodes > 1 /\ doc = EmptyDoc /\ grow = TRUE
       \/ CatSteps > 0 /\ \E i \in CatIds : doc = Catalogue[i] /\ grow = FALSE
AddNode ==
    /\ grow /\ path = Path(FALSE, <<>>) /\ Len(doc) < MaxNodes
    /\ \E nd \in NewNodes(doc) : CanAdd(doc, nd) /\ doc' = Append(doc, nd)
    /\ UNCHANGED <<grow, path>>
SetAbs ==
    /\ path = Path(FALSE, <<>>) /\ Len(doc) > 1
    /\ path' = Path(TRUE, <<>>) /\ UNCHANGED <<doc, grow>>
AddStep ==
    /\ Len(doc) > 1
    /\ Len(path.steps) < (IF grow THEN MaxSteps ELSE CatSteps)
    /\ \E st \in StepAlphabet : path' = [path EXCEPT !.steps = Append(@, st)]
    /\ UNCHANGED <<doc, grow>>
Next == AddNode \/ SetAbs \/ AddStep
Spec == Init /\ [][Next]_vars

IsCase == path.abs \/ path.steps # <<>>
DocCode(d) == [i \in 1 .. Len(d) |-> <<d[i].k, d[i].n, d[i].p, d[i].v, d[i].px, d[i].ns>>]

Runs == LET g == Env(doc) IN [i \in 1 .. Len(doc) |-> RunAll(path, g, i)]

VMRefines ==
    IsCase =>
      LET g == Env(doc)  rs == Runs IN
      \A i \in 1 .. Len(doc) : rs[i].done /\ SeqToSet(rs[i].nodes) = EvalSet(path, g, i)

\* C12 at design level: a flat path (child / attribute / self steps only, or one descendant step, or //test)
\* is delivered in document order, no node twice (ids ARE document order)
FlatPath(pa) ==
    \/ \A i \in 1 .. Len(pa.steps) : pa.steps[i].ax \in {"child", "attribute", "self"}
    \/ Len(pa.steps) = 1 /\ pa.steps[1].ax \in {"descendant", "descendant-or-self"}
    \/ Len(pa.steps) = 2 /\ IsDosNode(pa.steps[1]) /\ pa.steps[2].ax = "child"
VMOrdered ==
    (IsCase /\ FlatPath(path)) =>
      LET rs == Runs IN
      \A i \in 1 .. Len(doc) : \A k \in 1 .. Len(rs[i].nodes) - 1 : rs[i].nodes[k] < rs[i].nodes[k + 1]

\* movements flattened to integers (code, from, to, code, from, to, ...) to keep the lines short:
\* TLC's CSVWrite is atomic only for lines below the I/O buffer size
OpCode(o) == CASE o = "child" -> 1 [] o = "next" -> 2 [] o = "prev" -> 3 [] o = "parent" -> 4 [] o = "root" -> 5
               [] o = "first" -> 6 [] o = "nextattr" -> 7
RECURSIVE Flat(_)
Flat(ops) == IF ops = <<>> THEN <<>> ELSE <<OpCode(Head(ops)[1]), Head(ops)[2], Head(ops)[3]>> \o Flat(Tail(ops))

\* one line per context node (Java writes files in 8 KB chunks: longer lines may interleave);
\* very long movement lists are left out (nodes only)
Emit ==
    IsCase =>
      LET rs == Runs IN
      \A i \in 1 .. Len(doc) :
         CSVWrite("%1$s", <<ToJson([k |-> "vm", d |-> DocCode(doc), e |-> path, cs |-> <<i>>, tag |-> IF FlatPath(path) THEN "flat" ELSE "",
                                    r |-> <<[nodes |-> rs[i].nodes,
                                             ops |-> IF Len(rs[i].ops) > 450 THEN <<0>> ELSE Flat(rs[i].ops)]>>])>>, OutFile)
=============================================================================
