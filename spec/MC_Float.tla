------------------------------ MODULE MC_Float ------------------------------
(***************************************************************************)
(* Flow A generator over the exact binary64 model XFloat: number literals, *)
(* document values, + - * div mod, unary minus, floor, ceiling, number(),  *)
(* sum(), string() of a number, the six comparisons between numbers and    *)
(* between a node-set and a number.  Every case carries the expression     *)
(* TEXT (built here), the document values and the reply the specification  *)
(* requires; numbers are written with their exact bit pattern (sign,       *)
(* 53-bit mantissa in base-2^15 limbs, exponent), so the harness compares  *)
(* math.Float64bits, not a rounded rendering.                              *)
(*                                                                         *)
(* The value grid is chosen where IEEE rounding, integer fast paths and    *)
(* decimal conversion go wrong: decimal fractions that are not dyadic,     *)
(* 2^53 +- 1, 2^63, 2^64, 10^19 .. 10^23, 19- and 20-digit integers,       *)
(* products that need 106 bits, quotients with long periods.               *)
(***************************************************************************)
EXTENDS XFExpr, Json, CSV, IOUtils, FiniteSets

CONSTANTS Family      \* "arith1" | "arith2" | "cmp" | "fn" | "str" | "substr" | "pred" | "extreme"

VARIABLES di, part, expr
vars == <<di, part, expr>>

OutFile == IOEnv.VERIF_OUT
NoExpr == [t |-> "none"]

(* documents: the string-values of the children v1, v2, ... of the root element r *)
FDocs == <<
    <<"0.3", "0.1", "0.2">>,
    <<"9223372036854775808", "5", "7">>,
    <<"9007199254740993", "9007199254740992", "1">>,
    <<"9999999999999999999", "10000000000000000000", "-9223372036854775809">>,
    <<"1.1", "2.2", "3.3">>,
    <<"-0.7", " 12.5 ", "abc">>,
    <<"100000000000000000000000", "0.000001", "123456.789">>,
    <<"4000000000", "4294967296", "4294967297">>,
    <<".5", "5.", "-0">>,
    <<"0.30000000000000004", "0.1", "1e2">>,
    \* '~' is a placeholder the harness replaces by characters TLC cannot write (NBSP, EM SPACE, IDEOGRAPHIC SPACE, NEL,
    \* VT, FF, ...): none of them is XPath white space, so the value is not a number
    <<"~12", "7~", "3">> >>


LitsCore == {Lit("0.1"), Lit("0.2"), Lit("0.3"), Lit("1"), Lit("3"), Lit("0"), Lit("10"), Lit("7"),
             Lit("1.1"), Lit("0.7"), Lit("2.675"), Lit("123456.789"), Lit("0.000001"), Lit(".5"), Lit("5.")}
LitsBig  == {Lit("9223372036854775808"), Lit("18446744073709551616"), Lit("9007199254740993"), Lit("9007199254740992"),
             Lit("10000000000000000000"), Lit("9999999999999999999"), Lit("100000000000000000000000"),
             Lit("4000000000"), Lit("4294967297"), Lit("2147483648"), Lit("1000000"), Lit("999999.9999999999"),
             Lit("0.30000000000000004"), Lit("0.1000000000000000055511151231257827")}
Nodes3   == {NodeV(1), NodeV(2), NodeV(3)}
LeavesA  == LitsCore \cup LitsBig \cup Nodes3
LeavesS  == {Lit("0.1"), Lit("0.2"), Lit("3"), Lit("7"), Lit("1.1"), Lit("9223372036854775808"), Lit("4000000000"), NodeV(1), NodeV(2)}

SubStrs == {"12345", "abcdefghijkl"}
NaNLit == Bin("div", Lit("0"), Lit("0"))
InfLit == Bin("div", Lit("1"), Lit("0"))
SubNums == {Lit("0"), Lit("1"), Lit("2"), Lit("3"), Lit("1.5"), Lit("2.5"), Lit("0.5"), Lit("2.6"), Lit("1.4999999999999999"),
            Neg(Lit("1.5")), Neg(Lit("0.5")), Neg(Lit("2.5")), Neg(Lit("1")), Neg(Lit("42")), Lit("12"), Lit("13"),
            Lit("9223372036854775808"), Neg(Lit("9223372036854775808")), Lit("10000000000000000000"), Lit("4294967297"),
            Neg(Lit("4294967295")), NaNLit, InfLit, Neg(InfLit)}

\* the edges of the binary64 range: overflow to infinity, the smallest normal, subnormals, underflow to zero.
\* XPath literals have no exponent, so the numerals are written out (309 digits, 324 fraction digits).
MaxLit   == Lit("17976931348623157" \o ZeroStr(292))                    \* 1.7976931348623157e308, the largest double
MaxUp    == Lit("17976931348623158" \o ZeroStr(292))                    \* still rounds to the largest double
OverLit  == Lit("17976931348623159" \o ZeroStr(292))                    \* rounds to +Infinity
E200     == Lit("1" \o ZeroStr(200))
EM200    == Lit("0." \o ZeroStr(199) \o "1")
MinNorm  == Lit("0." \o ZeroStr(307) \o "22250738585072014")            \* 2.2250738585072014e-308
SubN     == Lit("0." \o ZeroStr(309) \o "123456789")                    \* a subnormal
MinSub   == Lit("0." \o ZeroStr(323) \o "5")                            \* 5e-324, the smallest subnormal
HalfMin  == Lit("0." \o ZeroStr(323) \o "2")                            \* 2e-324 rounds to zero
HalfMinUp == Lit("0." \o ZeroStr(323) \o "25")                          \* 2.5e-324 rounds up to the smallest subnormal
P128     == Lit("340282366920938463463374607431768211456")              \* 2^128
Extremes == {MaxLit, MaxUp, OverLit, E200, EM200, MinNorm, SubN, MinSub, HalfMin, HalfMinUp, P128}
ExtPartners == Extremes \cup {Lit("2"), Lit("0.5"), Lit("3"), Lit("10"), Lit("0.1"), Lit("1"), Lit("0")}

ArithOps == <<"+", "-", "*", "div", "mod">>
CmpOps == <<"=", "!=", "<", "<=", ">", ">=">>

Bins(op, X, Y) == {Bin(op, x, y) : x \in X, y \in Y}

PoolSets ==
    CASE Family = "arith1" -> [i \in 1 .. 5 |-> Bins(ArithOps[i], LeavesA, LeavesA)]
                              \o <<{Neg(x) : x \in LeavesA}>>
      [] Family = "arith2" -> [i \in 1 .. 25 |-> LET o1 == ArithOps[((i - 1) \div 5) + 1] o2 == ArithOps[((i - 1) % 5) + 1]
                                                 IN Bins(o1, Bins(o2, LeavesS, LeavesS), LeavesS)
                                                    \cup Bins(o1, LeavesS, Bins(o2, LeavesS, LeavesS))]
      [] Family = "cmp"    -> [i \in 1 .. 6 |-> {Cmp(CmpOps[i], x, y) : x \in LeavesA \cup {AllV}, y \in LeavesA \cup {AllV}}
                                                \cup {Cmp(CmpOps[i], x, Bin(o, y, z)) : x \in Nodes3 \cup {AllV, Lit("0.3"), Lit("1.2100000000000002")},
                                                                                        o \in {"+", "*", "div"}, y \in LeavesS, z \in LeavesS}]
      [] Family = "fn"     -> <<{Fn(f, x) : f \in {"floor", "ceiling", "number"}, x \in LeavesA}
                                \cup {Fn(f, Neg(x)) : f \in {"floor", "ceiling"}, x \in LeavesA}
                                \cup {Fn("sum", AllV)}
                                \cup {NumStr(s) : s \in {"0.1", " 0.3 ", "-9223372036854775809", "1e3", "0x10", "Infinity", "--1", "+1", "1 2", "", "~12", "12~", " ~ 5"}},
                                {Fn(f, Bin(o, x, y)) : f \in {"floor", "ceiling"}, o \in {"div", "*", "-"}, x \in LeavesS, y \in LeavesS},
                                {Bin(o, Fn("sum", AllV), x) : o \in {"+", "div", "mod"}, x \in LeavesS}>>
      [] Family = "str"    -> <<{Fn("string", x) : x \in LitsCore \cup LitsBig \cup {Fn("number", n) : n \in Nodes3}},
                                {Fn("string", Neg(x)) : x \in LeavesA}>>
                              \o [i \in 1 .. 4 |-> {Fn("string", Bin(ArithOps[i], x, y)) : x \in LeavesS \cup LitsCore, y \in LeavesS \cup LitsCore}]

      [] Family = "extreme" -> [i \in 1 .. 4 |-> Bins(ArithOps[i], Extremes, ExtPartners) \cup Bins(ArithOps[i], ExtPartners, Extremes)]
                                \o <<{Neg(x) : x \in Extremes} \cup Extremes \cup {Fn(f, x) : f \in {"floor", "ceiling"}, x \in Extremes}
                                      \cup {Fn(f, Neg(x)) : f \in {"floor", "ceiling"}, x \in Extremes}>>
                                \o [i \in 1 .. 6 |-> {Cmp(CmpOps[i], x, y) : x \in Extremes, y \in Extremes}
                                                      \cup {Cmp(CmpOps[i], Bin("*", x, Lit("2")), y) : x \in Extremes, y \in Extremes}]
      [] Family = "extremeq" -> <<Extremes \cup {Bin("*", x, Lit("2")) : x \in Extremes} \cup {Bin("div", x, Lit("2")) : x \in Extremes}
                                  \cup {Bin("+", x, x) : x \in Extremes} \cup {Cmp("<", x, MaxLit) : x \in Extremes}>>
      [] Family = "substr" -> <<{Sub3(s, p, l) : s \in SubStrs, p \in SubNums, l \in SubNums},
                                {Sub2(s, p) : s \in SubStrs, p \in SubNums \cup {Bin("div", Lit("7"), Lit("2")), Bin("-", Lit("0.3"), Lit("0.1"))}},
                                {Sub3("abcdefghijkl", Bin(o, x, y), Lit("3")) : o \in {"div", "*", "-"}, x \in LitsCore, y \in LitsCore},
                                {Concat2(x, y) : x \in SubNums \cup LitsCore, y \in {Lit("0.1"), Bin("+", Lit("0.1"), Lit("0.2")), Bin("div", Lit("1"), Lit("3"))}},
                                {SLen(Bin(o, x, y)) : o \in {"div", "*", "+"}, x \in LeavesS \cup LitsCore, y \in LeavesS \cup LitsCore}>>
      [] Family = "pred"   -> [i \in 1 .. 6 |-> {Pred(Cmp(CmpOps[i], Dot, y)) : y \in LitsCore \cup LitsBig \cup Bins("+", LeavesS, LeavesS) \cup Bins("*", LeavesS, LeavesS)}
                                                \cup {Pred(Cmp(CmpOps[i], y, Dot)) : y \in LitsCore \cup LitsBig \cup Bins("div", LeavesS, LeavesS)}]

NParts == Len(PoolSets)

(***************************************************************************)
Init == di = 0 /\ part = 0 /\ expr = NoExpr

\* the substring family is built from literals only: one document
DocIds == IF Family \in {"substr", "extreme", "extremeq"} THEN 1 .. 1 ELSE 1 .. Len(FDocs)
PickDoc  == di = 0 /\ \E d \in DocIds, p \in 1 .. NParts : di' = d /\ part' = p /\ expr' = NoExpr
PickExpr == di > 0 /\ expr = NoExpr /\ \E e \in PoolSets[part] : expr' = e /\ UNCHANGED <<di, part>>

Next == PickDoc \/ PickExpr
Spec == Init /\ [][Next]_vars

IsCase == expr # NoExpr

Emit ==
    IsCase =>
      LET vals == FDocs[di]
      IN IF ~InScope(expr, vals) \/ (di > 1 /\ ~UsesDoc(expr)) THEN TRUE
         ELSE CSVWrite("%1$s", <<ToJson([k |-> "f64", x |-> Text(expr), vals |-> vals, w |-> Value(expr, vals)])>>, OutFile)

Sanity == (di > 0 /\ expr = NoExpr /\ di = 1 /\ part = 1) => FloatSanity
=============================================================================
