------------------------------- MODULE XShare -------------------------------
(***************************************************************************)
(* Sharing discipline between goroutines that use ONE compiled expression  *)
(* (C05).  Memory is abstracted to regions:                                *)
(*   "tree"     the compiled query tree stored in the Expr                 *)
(*   "closure"  variables captured by the function closures the tree       *)
(*              points to (shared by every clone of the tree)              *)
(*   "clone"    the per-call copy of the tree (one per process)            *)
(*   "pool"     the string-builder pool (sync.Pool: internally atomic)     *)
(*   "cache"    the regexp cache map (guarded by an RWMutex)               *)
(* A process executes API calls; each call is a sequence of region         *)
(* accesses (read/write), each access takes time (begin ... end), and      *)
(* processes interleave at every step.                                     *)
(*                                                                         *)
(* Intended design: "clone first, then touch only the clone" -             *)
(*   Select/Evaluate read the tree (Clone), then read/write their clone;   *)
(*   closures only read what they captured; the cache is accessed under    *)
(*   its lock.  NoConflict: no two processes are simultaneously inside     *)
(*   conflicting accesses (same region, at least one write) of a region    *)
(*   that is not protected.                                                *)
(* Named deviations (what the pinned tree did; each was a genuine defect): *)
(*   EvaluateOnShared   Evaluate iterates the tree itself                  *)
(*   AssignCapturedVar  string-join() assigns to a captured variable       *)
(* With both FALSE TLC proves NoConflict for all interleavings; with       *)
(* either TRUE it returns the interleaving that races, which is what the   *)
(* race-detector runs of the conformance harness observe on such a tree.   *)
(***************************************************************************)
EXTENDS Integers, Sequences, FiniteSets, TLC

CONSTANTS Procs, Calls, MaxCalls, EvaluateOnShared, AssignCapturedVar

R(r) == <<"r", r>>
W(r) == <<"w", r>>
LOCK(m) == <<"lock", m>>      \* m \in {"r", "w"}
UNLOCK(m) == <<"unlock", m>>

\* the access sequence of one API call
Program(c) ==
    CASE c = "Select"   -> <<R("tree"), W("clone"), R("closure"), W("clone")>>
      [] c = "Evaluate" -> IF EvaluateOnShared
                           THEN <<W("tree"), R("closure"), W("tree")>>
                           ELSE <<R("tree"), W("clone"), R("closure"), W("clone")>>
      [] c = "StringJoin" -> \* Evaluate of an expression that calls string-join()
                           <<R("tree"), W("clone"), R("closure")>>
                           \o (IF AssignCapturedVar THEN <<W("closure")>> ELSE <<W("clone")>>)
                           \o <<R("clone")>>
      [] c = "Concat"   -> <<R("tree"), W("clone"), R("closure"), W("pool"), W("clone"), W("pool")>>
      [] c = "Matches"  -> <<R("tree"), W("clone"), R("closure"),
                             LOCK("r"), R("cache"), UNLOCK("r"),          \* lookup
                             LOCK("w"), W("cache"), UNLOCK("w")>>         \* store after a miss
      [] c = "Compile"  -> <<W("clone")>>                                \* builds a private tree

Private == {"clone"}            \* one instance per process
Atomic  == {"pool"}             \* internally synchronised
Guarded == {"cache"}            \* accessed only while holding the lock

VARIABLES pc,      \* pc[p]: <<call, index of next access, inside?>>
          done,    \* number of calls completed by p
          readers, writer
vars == <<pc, done, readers, writer>>

Idle == <<"idle", 0, FALSE>>
Init == pc = [p \in Procs |-> Idle] /\ done = [p \in Procs |-> 0] /\ readers = {} /\ writer = {}

Start(p) ==
    /\ pc[p] = Idle /\ done[p] < MaxCalls
    /\ \E c \in Calls : pc' = [pc EXCEPT ![p] = <<c, 1, FALSE>>]
    /\ UNCHANGED <<done, readers, writer>>

Cur(p) == Program(pc[p][1])[pc[p][2]]

Advance(p) ==
    IF pc[p][2] = Len(Program(pc[p][1]))
    THEN pc' = [pc EXCEPT ![p] = Idle] /\ done' = [done EXCEPT ![p] = @ + 1]
    ELSE pc' = [pc EXCEPT ![p] = <<pc[p][1], pc[p][2] + 1, FALSE>>] /\ UNCHANGED done

Begin(p) ==          \* enter a memory access
    /\ pc[p] # Idle /\ ~pc[p][3] /\ Cur(p)[1] \in {"r", "w"}
    /\ pc' = [pc EXCEPT ![p][3] = TRUE]
    /\ UNCHANGED <<done, readers, writer>>
End(p) ==            \* leave it
    /\ pc[p] # Idle /\ pc[p][3] /\ Cur(p)[1] \in {"r", "w"}
    /\ Advance(p) /\ UNCHANGED <<readers, writer>>
Lock(p) ==
    /\ pc[p] # Idle /\ Cur(p)[1] = "lock"
    /\ IF Cur(p)[2] = "r" THEN writer = {} /\ readers' = readers \cup {p} /\ UNCHANGED writer
       ELSE writer = {} /\ readers = {} /\ writer' = {p} /\ UNCHANGED readers
    /\ Advance(p)
Unlock(p) ==
    /\ pc[p] # Idle /\ Cur(p)[1] = "unlock"
    /\ readers' = readers \ {p} /\ writer' = writer \ {p}
    /\ Advance(p)

Next == \E p \in Procs : Start(p) \/ Begin(p) \/ End(p) \/ Lock(p) \/ Unlock(p)
Spec == Init /\ [][Next]_vars

Inside(p) == pc[p] # Idle /\ pc[p][3]
Conflict(p, q) ==
    /\ Inside(p) /\ Inside(q)
    /\ Cur(p)[2] = Cur(q)[2]
    /\ Cur(p)[2] \notin Private \cup Atomic
    /\ (Cur(p)[1] = "w" \/ Cur(q)[1] = "w")

NoConflict == \A p, q \in Procs : p # q => ~Conflict(p, q)

\* the lock discipline: guarded regions are touched only under the right lock
LockDiscipline ==
    \A p \in Procs : (Inside(p) /\ Cur(p)[2] \in Guarded) =>
        IF Cur(p)[1] = "w" THEN p \in writer ELSE (p \in readers \/ p \in writer)
MutualExclusion == (writer # {} => readers = {}) /\ Cardinality(writer) <= 1
=============================================================================
