------------------------------- MODULE XRegex -------------------------------
(***************************************************************************)
(* C16, regular-expression functions.  The semantics of regular            *)
(* expressions is an ENVIRONMENT function (Go's regexp package, which the  *)
(* property itself names as the reference).  What the specification        *)
(* defines is the wrapper:                                                 *)
(*   matches(s, p)    = Rx.Match[p, s]                                     *)
(*   replace(s, p, r) = Rx.ReplaceAll[p, s, Rewrite(r, NumSubexp(p))]      *)
(*   a constant pattern with ~Rx.Valid[p] makes Compile fail               *)
(* Rewrite turns "$n is group n" into Go's template syntax: "$" followed   *)
(* by digits becomes "${n}" for the LONGEST digit prefix n that names an   *)
(* existing group (1..nsub), the remaining digits are literal text;        *)
(* everything else is left as it is.                                       *)
(* This module enumerates (subject, pattern, template) triples from a      *)
(* small grammar and emits the rewritten template for the harness.         *)
(***************************************************************************)
EXTENDS XValue, Json, CSV, IOUtils

OutFile == IOEnv.VERIF_OUT

RECURSIVE DigitsLen(_, _)
DigitsLen(s, i) == IF i <= Len(s) /\ IsDigitCh(Ch(s, i)) THEN 1 + DigitsLen(s, i + 1) ELSE 0
RECURSIVE NumOf(_, _, _)
NumOf(s, i, n) == IF n = 0 THEN 0 ELSE NumOf(s, i, n - 1) * 10 + DigitVal[Ch(s, i + n - 1)]
\* longest prefix length L in 1..avail with 1 <= value <= nsub, 0 if none
RECURSIVE BestLen(_, _, _, _)
BestLen(s, i, avail, nsub) ==
    IF avail = 0 THEN 0
    ELSE IF avail <= 4 /\ NumOf(s, i, avail) >= 1 /\ NumOf(s, i, avail) <= nsub THEN avail
    ELSE BestLen(s, i, avail - 1, nsub)

RECURSIVE RewriteFrom(_, _, _)
RewriteFrom(r, i, nsub) ==
    IF i > Len(r) THEN ""
    ELSE IF Ch(r, i) = "$"
         THEN LET L == BestLen(r, i + 1, DigitsLen(r, i + 1), nsub)
              IN IF L = 0 THEN "$" \o RewriteFrom(r, i + 1, nsub)
                 ELSE "${" \o SubSeq(r, i + 1, i + L) \o "}" \o RewriteFrom(r, i + 1 + L, nsub)
         ELSE Ch(r, i) \o RewriteFrom(r, i + 1, nsub)
Rewrite(r, nsub) == RewriteFrom(r, 1, nsub)

\* number of capturing groups of a pattern from the grammar below:
\* "(" not followed by "?", or followed by "?P<" (a named group captures too)
RECURSIVE CountGroups(_, _)
CountGroups(p, i) ==
    IF i > Len(p) THEN 0
    ELSE (IF Ch(p, i) = "(" /\ (~(i < Len(p) /\ Ch(p, i + 1) = "?") \/ (i + 3 <= Len(p) /\ SubSeq(p, i + 1, i + 3) = "?P<")) THEN 1 ELSE 0)
         + CountGroups(p, i + 1)

\* a|ab, a+?, (a|ab)(b|) : leftmost-first and leftmost-longest matching differ
Atoms == {"a", "b", ".", "[ab]", "(a)", "(a|b)", "(b)(a)", "a*", "(ab)+", "^a", "b$", "a?", "((a)b)", "(?:a)b", "x",
          "a|ab", "a+?", "(a|ab)(b|)", "(?P<x>a)", "(?P<x>a)(?P<yy>b)", "(?i)A", "(?s)a.b"}
Invalid == {"(", "[a", "a**", "(a", "a)", "*a"}
Patterns == Atoms \cup {x \o y : x \in Atoms, y \in {"b", "(a)", "a*", "(a|b)"}}
Subjects == {"", "a", "b", "ab", "aab", "abab", "xay"}
Templates == {"", "-", "$1", "$2", "[$1]", "$1$2", "$2$1", "$0", "$12", "$10", "x$1y", "$", "$$", "$3", "${1}", "$1a",
              "$1x$1y", "$1$1a", "$2a$2b$1c", "$1-$1-$1", "a$2$2",
              \* names: $x is the group NAMED x (empty when there is none), ${yy}, a '$' before other characters
              "$x", "[$x]", "${x}", "$yy-${yy}", "$x1", "$_", "a$", "$ 1", "$-", "$${1}", "${", "$}"}

VARIABLES ph, p, s, r
vars == <<ph, p, s, r>>
Init == ph = 0 /\ p = "" /\ s = "" /\ r = ""
Next ==
    \/ ph = 0 /\ ph' = 1 /\ (\E x \in Patterns \cup Invalid : p' = x) /\ UNCHANGED <<s, r>>
    \/ ph = 1 /\ ph' = 2 /\ (\E x \in Subjects : s' = x) /\ (\E y \in Templates : r' = y) /\ UNCHANGED p
Spec == Init /\ [][Next]_vars

Emit ==
    ph = 2 =>
      CSVWrite("%1$s", <<ToJson([k |-> "regex", s |-> s, p |-> p, r |-> r, valid |-> p \notin Invalid,
                                 nsub |-> CountGroups(p, 1), tpl |-> Rewrite(r, CountGroups(p, 1))])>>, OutFile)

\* sanity of the rewriting itself
RewriteSanity ==
    /\ Rewrite("$1", 1) = "${1}" /\ Rewrite("$1", 0) = "$1" /\ Rewrite("$12", 2) = "${1}2"
    /\ Rewrite("$12", 12) = "${12}" /\ Rewrite("$0", 3) = "$0" /\ Rewrite("a$2b$1", 2) = "a${2}b${1}"
    /\ Rewrite("$", 1) = "$" /\ Rewrite("$10", 1) = "${1}0"
=============================================================================
