------------------------------ MODULE MC_Hash ------------------------------
(***************************************************************************)
(* All documents up to MaxNodes nodes (elements whose names contain '-'    *)
(* and digits, attributes with and without prefix, text, comments, equal   *)
(* names and values everywhere):                                           *)
(*   KeyInjective   two different nodes never have the same identity key;  *)
(*   Emit           the key of every node, for the conformance run: the    *)
(*                  harness requires fnv64a(key) = getHashCode(node) for   *)
(*                  the real engine (hook VerifHashCode) and that no two   *)
(*                  nodes of a document hash alike.                        *)
(***************************************************************************)
EXTENDS XHash, XCatalog, Json, CSV, IOUtils, Sequences

CONSTANTS MaxNodes, UseCat, ElemNames, AttrNames, AttrPrefixes, TextVals, WithComment, Deviations

VARIABLES doc, grow
vars == <<doc, grow>>
OutFile == IOEnv.VERIF_OUT

NewNodes(d) ==
    UNION { {Node("elem", n, "", "", p, "") : n \in ElemNames}
            \cup {Node("text", "", "", "", p, v) : v \in TextVals}
            \cup (IF WithComment THEN {Node("comment", "", "", "", p, v) : v \in TextVals} ELSE {})
            \cup {Node("attr", n, px, IF px = "" THEN "" ELSE "urn:" \o px, p, v) : n \in AttrNames, px \in AttrPrefixes, v \in TextVals}
          : p \in Ids(d) }
Init == \/ doc = EmptyDoc /\ grow = TRUE
        \/ UseCat /\ \E i \in 1 .. Len(Catalogue) : doc = Catalogue[i] /\ grow = FALSE
AddNode == /\ grow /\ Len(doc) < MaxNodes
           /\ \E nd \in NewNodes(doc) : CanAdd(doc, nd) /\ doc' = Append(doc, nd)
           /\ UNCHANGED grow
Next == AddNode
Spec == Init /\ [][Next]_vars

KeyInjective == KeyInjectiveOn(doc, Deviations)
DocCode(d) == [i \in 1 .. Len(d) |-> <<d[i].k, d[i].n, d[i].p, d[i].v, d[i].px, d[i].ns>>]
Emit == CSVWrite("%1$s", <<ToJson([k |-> "hash", d |-> DocCode(doc), keys |-> [i \in 1 .. Len(doc) |-> Key(doc, i, Deviations)]])>>, OutFile)
=============================================================================
