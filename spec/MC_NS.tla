-------------------------------- MODULE MC_NS --------------------------------
(***************************************************************************)
(* C14: name tests, namespaces and name functions over CONFIGURATIONS:     *)
(*   documents whose elements/attributes carry 0..3 namespaces under       *)
(*   different prefixes (same URI under two prefixes, one prefix for two   *)
(*   URIs in different places),                                            *)
(*   namespace maps: absent (Compile) / binding / re-binding / partially   *)
(*   missing / empty (CompileWithNS),                                      *)
(*   navigator flavours: exposes namespace URIs or not.                    *)
(* XSem.NameMatch is the rule:                                             *)
(*   no map:           prefix and local name equal                         *)
(*   map, prefixed, navigator with URIs: (URI bound to the prefix, local)  *)
(*   map, navigator without URIs: prefix and local name equal              *)
(*   map, prefix unbound: Compile fails                                    *)
(***************************************************************************)
EXTENDS XPools, Json, CSV, IOUtils, SequencesExt

CONSTANTS MaxNodes, TestAxes

VARIABLES doc, cfg, expr
vars == <<doc, cfg, expr>>
OutFile == IOEnv.VERIF_OUT
NoExpr == [t |-> "none"]
NoCfg == [map |-> FALSE, ns |-> <<>>, uri |-> TRUE, id |-> "none"]

\* labels: <<prefix, uri, local>>
ElemLabels == {<<"", "", "a">>, <<"p", "u1", "a">>, <<"q", "u1", "a">>, <<"p", "u2", "b">>, <<"q", "u2", "a">>}
AttrLabels == {<<"", "", "a">>, <<"p", "u1", "a">>, <<"q", "u2", "a">>}

NewNodes(d) ==
    UNION { {Node("elem", l[3], l[1], l[2], p, "") : l \in ElemLabels}
            \cup {Node("attr", l[3], l[1], l[2], p, "1") : l \in AttrLabels}
            \cup {Node("text", "", "", "", p, "t")}
          : p \in Ids(d) }

Maps == << [id |-> "absent",  map |-> FALSE, ns |-> <<>>],
           [id |-> "bound",   map |-> TRUE,  ns |-> [x \in {"p", "q"} |-> IF x = "p" THEN "u1" ELSE "u2"]],
           [id |-> "rebind",  map |-> TRUE,  ns |-> [x \in {"p"} |-> "u2"]],
           [id |-> "other",   map |-> TRUE,  ns |-> [x \in {"r", "p"} |-> IF x = "r" THEN "u1" ELSE "u3"]],
           [id |-> "emptyuri", map |-> TRUE, ns |-> [x \in {"p", "q"} |-> IF x = "p" THEN "" ELSE "u1"]],
           [id |-> "empty",   map |-> TRUE,  ns |-> <<>>] >>
Cfgs == {[id |-> Maps[i].id, map |-> Maps[i].map, ns |-> Maps[i].ns, uri |-> u] : i \in 1 .. Len(Maps), u \in BOOLEAN}

NsPrefixes == {"", "p", "q", "r"}
QTests == {NTQName(px, n) : px \in NsPrefixes, n \in {"a", "b"}}
NamePaths ==
    {Path(FALSE, <<Step(ax, nt, <<>>)>>) : ax \in TestAxes, nt \in QTests}
    \cup {Path(TRUE, <<DosNode, Step("child", nt, <<>>)>>) : nt \in QTests}
    \cup {Path(TRUE, <<DosNode, Step("child", nt, <<>>), Step("attribute", nt2, <<>>)>>) : nt \in QTests, nt2 \in {NTQName("p", "a"), NTQName("", "a"), NTQName("r", "a")}}
    \cup {Path(TRUE, <<DosNode, Step("child", NTAny, <<Rel1("child", nt)>>)>>) : nt \in QTests}
NameFns ==
    {Call(f, <<>>) : f \in {"name", "local-name", "namespace-uri"}}
    \cup {Call(f, <<pa>>) : f \in {"name", "local-name", "namespace-uri"},
                           pa \in {Rel1("child", NTAny), Rel1("attribute", NTAny), Rel1("child", NTName("zz")),
                                   Rel1("parent", NTNode), Rel1("child", NTQName("p", "a")), Rel1("child", NTText)}}
PoolSets == <<NamePaths, NameFns>>

Init == doc = EmptyDoc /\ cfg = NoCfg /\ expr = NoExpr
AddNode ==
    /\ cfg = NoCfg /\ Len(doc) < MaxNodes
    /\ \E nd \in NewNodes(doc) : CanAdd(doc, nd) /\ doc' = Append(doc, nd)
    /\ UNCHANGED <<cfg, expr>>
PickCfg ==
    /\ cfg = NoCfg /\ Len(doc) > 1
    /\ \E c \in Cfgs : cfg' = c
    /\ UNCHANGED <<doc, expr>>
PickExpr ==
    /\ cfg # NoCfg /\ expr = NoExpr
    /\ \E i \in 1 .. Len(PoolSets) : \E e \in PoolSets[i] : expr' = e
    /\ UNCHANGED <<doc, cfg>>
Next == AddNode \/ PickCfg \/ PickExpr
Spec == Init /\ [][Next]_vars

IsCase == expr # NoExpr
DocCode(d) == [i \in 1 .. Len(d) |-> <<d[i].k, d[i].n, d[i].p, d[i].v, d[i].px, d[i].ns>>]

MustFail == cfg.map /\ ~(PrefixesOf(expr) \subseteq DOMAIN cfg.ns)
\* namespace-uri() needs a navigator that exposes URIs
Claimed == ~(expr.t = "call" /\ expr.f = "namespace-uri" /\ ~cfg.uri)

G == [d |-> doc, map |-> cfg.map, ns |-> cfg.ns, uri |-> cfg.uri]
NavName == IF cfg.uri THEN "uri" ELSE "plain"
ValJson(v) == IF v.t = "ns" THEN [t |-> "ns", v |-> Asc(doc, v.v)] ELSE v

Emit ==
    (IsCase /\ Claimed) =>
      IF MustFail
      THEN CSVWrite("%1$s", <<ToJson([k |-> "compile-err", d |-> DocCode(doc), e |-> expr, ns |-> cfg.ns, nav |-> NavName,
                                      r |-> [i \in 1 .. Len(doc) |-> "error"]])>>, OutFile)
      ELSE LET vs == [i \in 1 .. Len(doc) |-> Eval(expr, G, Ctx(i))]
           IN IF cfg.map
              THEN CSVWrite("%1$s", <<ToJson([k |-> IF vs[1].t = "ns" THEN "sel-set" ELSE "eval", d |-> DocCode(doc), e |-> expr,
                                              ns |-> cfg.ns, nav |-> NavName,
                                              r |-> [i \in 1 .. Len(doc) |-> IF vs[i].t = "ns" THEN Asc(doc, vs[i].v) ELSE ValJson(vs[i])]])>>, OutFile)
              ELSE CSVWrite("%1$s", <<ToJson([k |-> IF vs[1].t = "ns" THEN "sel-set" ELSE "eval", d |-> DocCode(doc), e |-> expr,
                                              nav |-> NavName,
                                              r |-> [i \in 1 .. Len(doc) |-> IF vs[i].t = "ns" THEN Asc(doc, vs[i].v) ELSE ValJson(vs[i])]])>>, OutFile)
Sanity == IsCase => WFDoc(doc)
=============================================================================
