------------------------------- MODULE XHash -------------------------------
(***************************************************************************)
(* The node identity key of query.go: getHashCode.  The engine decides     *)
(* "same node" (union, ancestor de-duplication) by the FNV-64a hash of a   *)
(* string key built from the navigator: the node-type digit, the 1-based   *)
(* sibling position of the node and of every ancestor up to the root, and  *)
(* after '/' the node's own name (and value).  C11 ("two different nodes   *)
(* are never treated as the same node and one node is never treated as     *)
(* two") needs the key to be INJECTIVE on the nodes of a document.         *)
(***************************************************************************)
EXTENDS XDoc, TLC

TypDigit(k) == CASE k = "root" -> "0" [] k = "elem" -> "1" [] k = "attr" -> "2" [] k = "text" -> "3" [] k = "comment" -> "4"
\* 1 + the number of successful MoveToPrevious calls (an attribute has no previous sibling)
SibPos(d, n) == 1 + Cardinality({j \in SiblingSet(d, n) : j < n})
RECURSIVE PosChain(_, _)
PosChain(d, n) == "-" \o ToString(SibPos(d, n)) \o (IF d[n].p = 0 THEN "" ELSE PosChain(d, d[n].p))
\* Deviations (each re-introduces a key that is NOT injective; TLC must refute KeyInjective):
\*   "name-first"   the name is written BEFORE the positions (the pinned tree: 'a-1' + '-1' = 'a' + '-1-1')
\*   "no-prefix"    an attribute's tail is local-name=value without its prefix (p:a='1' and q:a='1' collide)
KeyTail(d, n, dev) ==
    IF d[n].k = "elem" THEN d[n].px \o d[n].n
    ELSE IF "no-prefix" \notin dev THEN d[n].px \o ":" \o d[n].n \o "=" \o d[n].v
    ELSE d[n].n \o "=" \o d[n].v
Key(d, n, dev) ==
    IF d[n].k = "root" THEN ""
    ELSE IF "name-first" \in dev THEN KeyTail(d, n, dev) \o PosChain(d, n)
    ELSE TypDigit(d[n].k) \o PosChain(d, n) \o "/" \o KeyTail(d, n, dev)

KeyInjectiveOn(d, dev) == \A i, j \in Ids(d) : i # j => Key(d, i, dev) # Key(d, j, dev)
=============================================================================
