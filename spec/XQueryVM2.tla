----------------------------- MODULE XQueryVM2 -----------------------------
(***************************************************************************)
(* The implementation-shaped model extended to PREDICATES: what            *)
(* builder.processFilter makes of a step with predicates (plain filter     *)
(* chain; the "merge" rewrite for a single positional or function-valued   *)
(* predicate on a step that has an input; no '//' folding / SmartDesc      *)
(* under a filter), the per-query position counters, the reset protocol    *)
(* (Evaluate resets, Select iterates), the moving context cursor           *)
(* (filterQuery sets it to the candidate and restores it), and the         *)
(* evaluation of the predicate kinds                                       *)
(*     path (existence) | not(path) | path = 'lit' | path != 'lit'         *)
(*     | n (position) | P and P | P or P                                   *)
(* exactly as query.go / func.go / operator.go perform them, down to the   *)
(* cursor movements.  As in XQueryVM: TLC checks refinement of the         *)
(* denotation on the fragment the properties claim (MC_VM2.VM2Refines),    *)
(* the harness compares the engine's recorded movements with the model's.  *)
(*                                                                         *)
(* What the model makes visible: every query object's iteration state,     *)
(* which parts Evaluate resets (and which it does not: a filter's position *)
(* map and counter survive), that the predicate sub-tree is shared by all  *)
(* candidates of one filter, that function arguments are cloned per call.  *)
(***************************************************************************)
EXTENDS XQueryVM, XHash

\* ---- query trees ---------------------------------------------------------
QFilter(in, pred) == [t |-> "filter", in |-> in, pred |-> pred]
QMerge(in, child) == [t |-> "merge", in |-> in, child |-> child]
QGroup(in)        == [t |-> "group", in |-> in]
QConst(v)         == [t |-> "const", v |-> v]
QNot(arg)         == [t |-> "not", arg |-> arg]
QLogical(op, l, r) == [t |-> "logical", op |-> op, l |-> l, r |-> r]
QBoolean(isOr, l, r) == [t |-> "boolean", isOr |-> isOr, l |-> l, r |-> r]
\* a function call: functionQuery{Func: closure over the ARGUMENT queries}; arguments are cloned for every call
QCall(f, args)    == [t |-> "call", f |-> f, args |-> args]
QUnion(l, r)      == [t |-> "union", l |-> l, r |-> r]
QNumeric(op, l, r) == [t |-> "numeric", op |-> op, l |-> l, r |-> r]
\* position() / last(): a functionQuery whose Input is the builder's "first input" at the moment the call
\* was built; only that query's node TEST is used (sibling scan), h = [has, ax, nt], has = FALSE: every node counts
QFn(f, h)         == [t |-> "fn", f |-> f, h |-> h]
NoHost == [has |-> FALSE, ax |-> "self", nt |-> NTNode]
HostOf(s) == [has |-> TRUE, ax |-> s.ax, nt |-> s.nt]



AxisKinds == {"child", "attr", "desc", "dod", "anc", "foll", "prec", "parent", "self"}

\* a predicate the builder treats as positional: a number, or any function call (functionQuery's
\* value type is "any", which canBeNumber accepts)
RECURSIVE UsesPos(_)
UsesPos(p) == CASE p.t = "call" -> p.f \in {"position", "last"} \/ (p.f = "not" /\ UsesPos(p.args[1]))
                [] p.t = "bin" -> UsesPos(p.l) \/ UsesPos(p.r)
                [] OTHER -> FALSE
Positional(p) == p.t = "num" \/ p.t = "call" \/ (p.t = "bin" /\ p.op \in ArithOps) \/ UsesPos(p)

RECURSIVE B2Steps(_, _, _, _), B2ExprH(_, _, _), B2Chain(_, _, _, _)
\* the axis query for one step over input `in` (kind depends on the SmartDesc flag only)
AxisOf(s, smart, in) ==
    CASE s.ax = "ancestor"           -> QAxis("anc", FALSE, s.nt, s.ax, in)
      [] s.ax = "ancestor-or-self"   -> QAxis("anc", TRUE, s.nt, s.ax, in)
      [] s.ax = "attribute"          -> QAxis("attr", FALSE, s.nt, s.ax, in)
      [] s.ax = "child"              -> QAxis("child", FALSE, s.nt, s.ax, in)
      [] s.ax = "descendant"         -> QAxis(IF smart THEN "dod" ELSE "desc", FALSE, s.nt, s.ax, in)
      [] s.ax = "descendant-or-self" -> QAxis(IF smart THEN "dod" ELSE "desc", TRUE, s.nt, s.ax, in)
      [] s.ax = "following"          -> QAxis("foll", FALSE, s.nt, s.ax, in)
      [] s.ax = "following-sibling"  -> QAxis("foll", TRUE, s.nt, s.ax, in)
      [] s.ax = "parent"             -> QAxis("parent", FALSE, s.nt, s.ax, in)
      [] s.ax = "preceding"          -> QAxis("prec", FALSE, s.nt, s.ax, in)
      [] s.ax = "preceding-sibling"  -> QAxis("prec", TRUE, s.nt, s.ax, in)
      [] s.ax = "self"               -> QAxis("self", FALSE, s.nt, s.ax, in)

\* filter(...filter(filter(base, p1), p2)..., pk)
\* h = the test position()/last() of the FIRST predicate scan with; later predicates see the previous
\* filter query as "first input", which has no test
\* fl: the builder's flags for the node being built, a subset of {"S", "F"}: S = SmartDesc (the consumer is a descendant step),
\* F = Filter (the node is the input of a predicate filter, or the CONDITION of a filter that is itself the input of another
\* one: in a chain step[p1][p2] the condition p1 is built with F, p2 without).  F disables the '//' folding, the SmartDesc
\* hand-over and the merge rewrite at the node that receives it; below it the flags start afresh.
B2Chain(base, preds, fl, h) ==
    IF preds = <<>> THEN base
    ELSE B2Chain(QFilter(base, B2ExprH(Head(preds),
                                       IF Len(preds) > 1   \* an inner filter of the chain: built with (flags | F) & ^S   (F-C02-6)
                                       THEN (IF "smart-through-filter" \in Deviations THEN fl ELSE fl \ {"S"}) \cup {"F"}
                                       ELSE fl, h)),
                 Tail(preds), fl, NoHost)
B2Expr(e, fl) == B2ExprH(e, fl, NoHost)

B2Steps(steps, n, abs, fl) ==
    IF n = 0 THEN (IF abs THEN QAbs ELSE QCtx)
    ELSE LET s == steps[n] IN
         IF s.preds = <<>>
         THEN \* exactly XQueryVM.BuildSteps, but the input may carry predicates
              IF "F" \notin fl /\ s.ax = "child" /\ n > 1 /\ IsDosNode(steps[n - 1])
              THEN QAxis("desc", FALSE, s.nt, s.ax, B2Steps(steps, n - 2, abs, {"S"}))
              ELSE AxisOf(s, "S" \in fl, B2Steps(steps, n - 1, abs,
                                                 IF "F" \notin fl /\ s.ax \in {"descendant", "descendant-or-self"} THEN {"S"} ELSE {}))
         ELSE \* under a filter the step's input is built without '//' folding and without SmartDesc
              LET in == B2Steps(steps, n - 1, abs, {})
                  hs == "S" \in fl /\ "smart-through-filter" \in Deviations   \* the flag stops at a predicate (F-C02-6)
                  ax == AxisOf(s, hs, in)
                  h == [HostOf(s) EXCEPT !.has = (ax.t # "dod")]
              IN IF "F" \notin fl /\ Len(s.preds) = 1 /\ Positional(s.preds[1]) /\ in.t # "ctx"
                 THEN \* merge rewrite: the step and its predicate are evaluated once per input node
                      QMerge(in, QFilter(AxisOf(s, hs, QCtx), B2ExprH(s.preds[1], fl, h)))
                 ELSE B2Chain(ax, s.preds, fl, h)

B2ExprH(e, fl, h) ==
    CASE e.t = "path"  -> B2Steps(e.steps, Len(e.steps), e.abs, fl)
      [] e.t = "union" -> QUnion(B2ExprH(e.l, {}, h), B2ExprH(e.r, {}, h))
      [] e.t = "num"   -> \* integers, and positive fractions n / 2^k (only meaningful as a whole predicate, see DoPred)
                          IF e.v.k = 0 THEN QConst([k |-> "n", v |-> IF e.v.neg THEN 0 - e.v.n ELSE e.v.n])
                          ELSE QConst([k |-> "f", v |-> e.v.n, kk |-> e.v.k, neg |-> e.v.neg])
      [] e.t = "lit"   -> QConst([k |-> "s", v |-> e.s])
      [] e.t = "call"  -> IF e.f = "not" THEN QNot(B2ExprH(e.args[1], {}, h))
                          ELSE IF e.f \in {"position", "last"} THEN QFn(e.f, h)
                          ELSE QCall(e.f, [i \in 1 .. Len(e.args) |-> B2ExprH(e.args[i], {}, h)])   \* count contains starts-with local-name true false
      [] e.t = "bin"   -> \* (an operand that is a path would replace the builder's first input: the pool keeps
                          \*  position()/last() out of predicates that also contain paths)
                          IF e.op \in {"and", "or"} THEN QBoolean(e.op = "or", B2ExprH(e.l, {}, h), B2ExprH(e.r, {}, h))
                          ELSE IF e.op \in ArithOps THEN QNumeric(e.op, B2ExprH(e.l, {}, h), B2ExprH(e.r, {}, h))
                          ELSE QLogical(e.op, B2ExprH(e.l, {}, h), B2ExprH(e.r, {}, h))
      [] e.t = "filter" ->   \* (P)[p...] with a predicate-free path P; no steps after it in this fragment.  groupQuery has no
                             \* Merge property, so the merge rewrite never applies: a plain chain of filters over the group
           B2Chain(QGroup(B2Expr(e.e, {})), e.preds, fl,
                   IF e.e.t = "path" /\ e.e.steps # <<>> THEN HostOf(e.e.steps[Len(e.e.steps)]) ELSE NoHost)
Build2(e) == B2Expr(e, {})

\* ---- iteration state -------------------------------------------------------
MaxLevel == 16
NoSub2 == [node |-> 0, level |-> 0, first |-> FALSE, posit |-> 0]
Base2 == [active |-> FALSE, node |-> 0, first |-> FALSE, level |-> 0, table |-> {}, subOn |-> FALSE, sub |-> NoSub2,
          attrPending |-> FALSE, posit |-> 0, pm |-> [i \in 0 .. MaxLevel |-> 0], list |-> <<>>, idx |-> 0, done |-> FALSE, count |-> 0]
RECURSIVE Init2(_)
Init2(q) ==
    CASE q.t \in {"ctx", "abs", "const", "fn", "call"} -> Base2
      [] q.t \in {"numeric", "union"} -> Base2 @@ [l |-> Init2(q.l), r |-> Init2(q.r)]
      [] q.t \in AxisKinds   -> [Base2 EXCEPT !.node = 0] @@ [in |-> Init2(q.in)]
      [] q.t = "filter"      -> Base2 @@ [in |-> Init2(q.in), pred |-> Init2(q.pred)]
      [] q.t = "merge"       -> Base2 @@ [in |-> Init2(q.in), child |-> Init2(q.child)]
      [] q.t = "group"       -> Base2 @@ [in |-> Init2(q.in)]
      [] q.t = "not"         -> Base2
      [] q.t \in {"logical", "boolean"} -> Base2 @@ [l |-> Init2(q.l), r |-> Init2(q.r)]

\* position() of a query for a numeric predicate (getNodePosition)
PosOf(q, st) == IF q.t \in {"child", "desc", "foll", "prec", "filter", "group", "dod"} THEN st.posit ELSE 1
DepthOf(q, st) == IF q.t = "desc" THEN st.level ELSE 0

R2(n, st, ops) == [n |-> n, st |-> st, ops |-> ops]
V2(v, st, ops) == [v |-> v, st |-> st, ops |-> ops]
IsQ == [k |-> "q"]

\* positionFunc: count the preceding siblings passing the host test;  lastFunc: MoveToFirst, then count along MoveToNext
RECURSIVE PosScan(_, _, _, _, _), LastScan(_, _, _, _, _)
HostTest(g, h, n) == IF h.has /\ "pos-ignores-test" \notin Deviations THEN TestOK(g, h.ax, h.nt, n) ELSE TRUE
PosScan(g, h, n, count, ops) ==
    LET pv == MvPrev(g.d, n)  o2 == Append(ops, Mv("prev", n, pv))
    IN IF pv = 0 THEN [v |-> count, ops |-> o2] ELSE PosScan(g, h, pv, count + (IF HostTest(g, h, pv) THEN 1 ELSE 0), o2)
LastScan(g, h, n, count, ops) ==
    LET c2 == count + (IF HostTest(g, h, n) THEN 1 ELSE 0)
        nx == MvNext(g.d, n)  o2 == Append(ops, Mv("next", n, nx))
    IN IF nx = 0 THEN [v |-> c2, ops |-> o2] ELSE LastScan(g, h, nx, c2, o2)
NumRel(op, a, b) == CASE op = "=" -> a = b [] op = "!=" -> a # b [] op = "<" -> a < b [] op = "<=" -> a <= b
                      [] op = ">" -> a > b [] op = ">=" -> a >= b

RECURSIVE Sel2(_, _, _, _), Ev2(_, _, _, _), DoPred(_, _, _, _, _), FollLoop2(_, _, _, _), PrecLoop2(_, _, _, _),
          DodLoop2(_, _, _, _, _, _), Drain2(_, _, _, _, _), CmpLoop(_, _, _, _, _, _, _), PrecNextRoot2(_, _, _, _), UDrain(_, _, _, _, _, _), CountLoop(_, _, _, _, _), VmArgStr(_, _, _), NSOuter(_, _, _, _, _), NSInner(_, _, _, _, _, _)

\* preceding (non-sibling): like PrecNextRoot but the position counter restarts when climbing
PrecNextRoot2(d, node, ops, posit) ==
    LET pv == MvPrev(d, node) IN
    IF pv # 0 THEN [ok |-> TRUE, node |-> pv, ops |-> Append(ops, Mv("prev", node, pv)), posit |-> posit]
    ELSE LET pa == MvParent(d, node) IN
         IF pa = 0 THEN [ok |-> FALSE, node |-> node, ops |-> ops \o <<Mv("prev", node, 0), Mv("parent", node, 0)>>, posit |-> posit]
         ELSE PrecNextRoot2(d, pa, ops \o <<Mv("prev", node, 0), Mv("parent", node, pa)>>, 0)

FollLoop2(g, q, st, ops) ==
    IF ~st.subOn
    THEN IF st.attrPending /\ MvParent(g.d, st.node) # 0
         THEN LET pa == MvParent(g.d, st.node)
              IN FollLoop2(g, q, [st EXCEPT !.attrPending = FALSE, !.node = pa, !.subOn = TRUE,
                                            !.sub = [node |-> pa, first |-> FALSE, level |-> 0, posit |-> 0]],
                           Append(ops, Mv("parent", st.node, pa)))
         ELSE LET r == FollNextRoot(g.d, st.node, ops)
              IN IF ~r.ok THEN R2(0, st, r.ops)
                 ELSE FollLoop2(g, q, [st EXCEPT !.node = r.node, !.subOn = TRUE,
                                               !.sub = [node |-> r.node, first |-> TRUE, level |-> 0, posit |-> 0]], r.ops)
    ELSE LET w == DescWalk(g, q, TRUE, [node |-> st.sub.node, level |-> st.sub.level, first |-> st.sub.first], ops)
         IN IF w.n # 0
            THEN R2(w.n, [st EXCEPT !.sub = [node |-> w.w.node, first |-> w.w.first, level |-> w.w.level, posit |-> st.sub.posit + 1],
                                    !.posit = st.sub.posit + 1], w.ops)
            ELSE FollLoop2(g, q, [st EXCEPT !.subOn = FALSE], w.ops)

PrecLoop2(g, q, st, ops) ==
    IF ~st.subOn
    THEN LET r == PrecNextRoot2(g.d, st.node, ops, st.posit)
         IN IF ~r.ok THEN R2(0, [st EXCEPT !.posit = r.posit], r.ops)
            ELSE PrecLoop2(g, q, [st EXCEPT !.node = r.node, !.posit = r.posit, !.subOn = TRUE,
                                          !.sub = [node |-> r.node, first |-> TRUE, level |-> 0, posit |-> 0]], r.ops)
    ELSE LET w == DescWalk(g, q, TRUE, [node |-> st.sub.node, level |-> st.sub.level, first |-> st.sub.first], ops)
         IN IF w.n # 0
            THEN R2(w.n, [st EXCEPT !.sub = [node |-> w.w.node, first |-> w.w.first, level |-> w.w.level, posit |-> 0],
                                    !.posit = st.posit + 1], w.ops)
            ELSE PrecLoop2(g, q, [st EXCEPT !.subOn = FALSE], w.ops)

DodLoop2(g, q, st, node, level, x) ==
    IF Pred(g, q, node) THEN R2(node, [st EXCEPT !.node = node, !.level = level, !.posit = st.posit + 1], x.ops)
    ELSE LET ch == MvChild(g.d, node)
             o2 == Append(x.ops, Mv("child", node, ch))
         IN IF ch # 0 THEN DodLoop2(g, q, st, ch, level + 1, [x EXCEPT !.ops = o2])
            ELSE Sel2(q, [st EXCEPT !.node = node, !.level = level], g, [x EXCEPT !.ops = o2])

\* Select of q until nil, collecting (for mergeQuery's buffer)
Drain2(q, st, g, x, acc) ==
    LET r == Sel2(q, st, g, x)
    IN IF r.n = 0 \/ Len(acc) > 4 * Len(g.d) THEN [list |-> acc, st |-> r.st, ops |-> r.ops]
       ELSE Drain2(q, r.st, g, [x EXCEPT !.ops = r.ops], Append(acc, r.n))

\* cmpNodeSetString / cmpNodeSetNumeric (swap: cmpNumericNodeSet): Select until some node's value satisfies op
\* against the constant w = [k |-> "s" | "n", v]; a number is compared with stringToNumber(string-value)
CmpHit(op, sv, w, swap) ==
    IF w.k = "s" THEN (IF op = "=" THEN sv = w.v ELSE sv # w.v)
    ELSE IF swap THEN NumCompare(op, NumInt(w.v), StrToNum(sv)) ELSE NumCompare(op, StrToNum(sv), NumInt(w.v))
CmpLoop(q, st, g, x, op, w, swap) ==
    LET r == Sel2(q, st, g, x)
    IN IF r.n = 0 THEN V2([k |-> "b", v |-> FALSE], r.st, r.ops)
       ELSE IF CmpHit(op, StringValue(g.d, r.n), w, swap) THEN V2([k |-> "b", v |-> TRUE], r.st, r.ops)
       ELSE CmpLoop(q, r.st, g, [x EXCEPT !.ops = r.ops], op, w, swap)

\* cmpNodeSetNodeSet (= and != only: string comparison): for every node x of the left operand the right operand is walked
\* until a pair satisfies op; after an unsuccessful inner walk the right operand is RESET by Evaluate; an empty right
\* operand ends the comparison at once.  lr = [l, r] operand states; returns [v, lr, ops]
NSInner(q, lr, g, x, sx, y) ==
    IF (IF q.op = "=" THEN sx = StringValue(g.d, y.n) ELSE sx # StringValue(g.d, y.n)) THEN [hit |-> TRUE, r |-> y.st, ops |-> y.ops]
    ELSE LET y2 == Sel2(q.r, y.st, g, [x EXCEPT !.ops = y.ops])
         IN IF y2.n = 0 THEN [hit |-> FALSE, r |-> y2.st, ops |-> y2.ops] ELSE NSInner(q, lr, g, x, sx, y2)
NSOuter(q, lr, g, x, dummy) ==
    LET a == Sel2(q.l, lr.l, g, x)
    IN IF a.n = 0 THEN [v |-> FALSE, lr |-> [lr EXCEPT !.l = a.st], ops |-> a.ops]
       ELSE LET y == Sel2(q.r, lr.r, g, [x EXCEPT !.ops = a.ops])
            IN IF y.n = 0 THEN [v |-> FALSE, lr |-> [l |-> a.st, r |-> y.st], ops |-> y.ops]
               ELSE LET in == NSInner(q, lr, g, x, StringValue(g.d, a.n), y)
                    IN IF in.hit THEN [v |-> TRUE, lr |-> [l |-> a.st, r |-> in.r], ops |-> in.ops]
                       ELSE LET ev == Ev2(q.r, in.r, g, [x EXCEPT !.ops = in.ops])
                            IN NSOuter(q, [l |-> a.st, r |-> ev.st], g, [x EXCEPT !.ops = ev.ops], dummy)

\* Evaluate: reset and/or compute.  x = [c |-> context node, ops]
Ev2(q, st, g, x) ==
    CASE q.t \in {"ctx", "abs"} -> V2(IsQ, [st EXCEPT !.count = 0], x.ops)
      [] q.t \in AxisKinds ->
           LET i == Ev2(q.in, st.in, g, x)
               s1 == [st EXCEPT !.in = i.st]
           IN \* each Deviations entry re-introduces a reset the pinned tree lacked (F-C02-1..5)
              V2(IsQ, CASE q.t \in {"child", "attr", "desc"} -> [s1 EXCEPT !.active = FALSE]
                        [] q.t \in {"foll", "prec"} -> IF "foll-prec-not-reset" \in Deviations THEN s1 ELSE [s1 EXCEPT !.active = FALSE]
                        [] q.t = "anc" -> IF "anc-table-not-reset" \in Deviations THEN [s1 EXCEPT !.active = FALSE]
                                          ELSE [s1 EXCEPT !.active = FALSE, !.table = {}]
                        [] q.t = "dod" -> IF "dod-level-not-reset" \in Deviations THEN s1 ELSE [s1 EXCEPT !.level = 0]
                        [] OTHER -> s1, i.ops)
      [] q.t = "filter" -> LET i == Ev2(q.in, st.in, g, x) IN V2(IsQ, [st EXCEPT !.in = i.st], i.ops)
      [] q.t = "merge"  -> LET i == Ev2(q.in, st.in, g, x)
                           IN V2(IsQ, IF "merge-not-reset" \in Deviations THEN [st EXCEPT !.in = i.st]
                                      ELSE [st EXCEPT !.in = i.st, !.active = FALSE], i.ops)
      [] q.t = "group"  -> LET i == Ev2(q.in, st.in, g, x)      \* the position count restarts (F-C03-1)
                           IN V2(i.v, IF "group-posit-not-reset" \in Deviations THEN [st EXCEPT !.in = i.st]
                                      ELSE [st EXCEPT !.in = i.st, !.posit = 0], i.ops)
      [] q.t = "union"  -> LET m == Ev2(q.l, st.l, g, x)
                               n == Ev2(q.r, st.r, g, [x EXCEPT !.ops = m.ops])
                           IN V2(IsQ, [st EXCEPT !.active = FALSE, !.l = m.st, !.r = n.st], n.ops)
      [] q.t = "const"  -> V2(q.v, st, x.ops)
      [] q.t = "call" ->
           (CASE q.f = "true"  -> V2([k |-> "b", v |-> TRUE], st, x.ops)
              [] q.f = "false" -> V2([k |-> "b", v |-> FALSE], st, x.ops)
              [] q.f = "local-name" /\ Len(q.args) = 0 ->
                   V2([k |-> "s", v |-> IF g.d[x.c].k \in {"elem", "attr"} THEN g.d[x.c].n ELSE ""], st, x.ops)
              [] q.f = "count" ->
                   LET a == q.args[1]
                       e == Ev2(a, Init2(a), g, x)
                   IN IF e.v.k = "q" THEN LET c == CountLoop(a, e.st, g, [x EXCEPT !.ops = e.ops], 0) IN V2([k |-> "n", v |-> c.v], st, c.ops)
                      ELSE V2([k |-> "n", v |-> 0], st, e.ops)
              [] q.f \in {"contains", "starts-with"} ->
                   LET m == VmArgStr(q.args[1], g, x)
                       n == VmArgStr(q.args[2], g, [x EXCEPT !.ops = m.ops])
                   IN IF m.ok /\ n.ok
                      THEN V2([k |-> "b", v |-> IF q.f = "contains" THEN StrContains(m.v, n.v) ELSE StrStartsWith(m.v, n.v)], st, n.ops)
                      ELSE V2([k |-> "err", v |-> "argument type"], st, n.ops)
              [] OTHER -> V2([k |-> "err", v |-> "outside the modelled fragment"], st, x.ops))
      [] q.t = "fn" ->
           IF q.f = "position"
           THEN LET r == PosScan(g, q.h, x.c, 1, x.ops) IN V2([k |-> "n", v |-> r.v], st, r.ops)
           ELSE LET f == MvFirst(g.d, x.c)
                    r == LastScan(g, q.h, IF f = 0 THEN x.c ELSE f, 0, Append(x.ops, Mv("first", x.c, f)))
                IN V2([k |-> "n", v |-> r.v], st, r.ops)
      [] q.t = "numeric" ->     \* integers, + and - only
           LET m == Ev2(q.l, st.l, g, x)
               n == Ev2(q.r, st.r, g, [x EXCEPT !.ops = m.ops])
               s1 == [st EXCEPT !.l = m.st, !.r = n.st]
           IN IF m.v.k = "n" /\ n.v.k = "n" /\ q.op \in {"+", "-"}
              THEN V2([k |-> "n", v |-> IF q.op = "+" THEN m.v.v + n.v.v ELSE m.v.v - n.v.v], s1, n.ops)
              ELSE V2([k |-> "err", v |-> "outside the modelled fragment"], s1, n.ops)
      [] q.t = "not"    -> \* functionArgs clones the argument: a fresh state for every call
           LET a0 == Ev2(q.arg, Init2(q.arg), g, x)
           IN IF a0.v.k = "b" THEN V2([k |-> "b", v |-> ~a0.v.v], st, a0.ops)
              ELSE IF a0.v.k = "q"
                   THEN LET r == Sel2(q.arg, a0.st, g, [x EXCEPT !.ops = a0.ops]) IN V2([k |-> "b", v |-> r.n = 0], st, r.ops)
              ELSE V2([k |-> "b", v |-> FALSE], st, a0.ops)
      [] q.t = "logical" ->
           LET m == Ev2(q.l, st.l, g, x)
               n == Ev2(q.r, st.r, g, [x EXCEPT !.ops = m.ops])
               s1 == [st EXCEPT !.l = m.st, !.r = n.st, !.done = FALSE]
           IN IF m.v.k = "q" /\ ((n.v.k = "s" /\ q.op \in {"=", "!="}) \/ n.v.k = "n")
              THEN LET c == CmpLoop(q.l, m.st, g, [x EXCEPT !.ops = n.ops], q.op, n.v, FALSE)
                   IN V2(c.v, [s1 EXCEPT !.l = c.st], c.ops)
              ELSE IF n.v.k = "q" /\ ((m.v.k = "s" /\ q.op \in {"=", "!="}) \/ m.v.k = "n")
              THEN LET c == CmpLoop(q.r, n.st, g, [x EXCEPT !.ops = n.ops], q.op, m.v, TRUE)
                   IN V2(c.v, [s1 EXCEPT !.r = c.st], c.ops)
              ELSE IF m.v.k = "s" /\ n.v.k = "s" /\ q.op \in {"=", "!="}
              THEN V2([k |-> "b", v |-> IF q.op = "=" THEN m.v.v = n.v.v ELSE m.v.v # n.v.v], s1, n.ops)
              ELSE IF m.v.k = "n" /\ n.v.k = "n"
              THEN V2([k |-> "b", v |-> NumRel(q.op, m.v.v, n.v.v)], s1, n.ops)
              ELSE IF m.v.k = "q" /\ n.v.k = "q" /\ q.op \in {"=", "!="}
              THEN LET c == NSOuter(q, [l |-> m.st, r |-> n.st], g, [x EXCEPT !.ops = n.ops], 0)
                   IN V2([k |-> "b", v |-> c.v], [s1 EXCEPT !.l = c.lr.l, !.r = c.lr.r], c.ops)
              ELSE V2([k |-> "err", v |-> "outside the modelled fragment"], s1, n.ops)
      [] q.t = "boolean" ->
           LET m == Ev2(q.l, st.l, g, x)
               lb == IF m.v.k = "q" THEN Sel2(q.l, m.st, g, [x EXCEPT !.ops = m.ops]) ELSE R2(0, m.st, m.ops)
               left == IF m.v.k = "q" THEN lb.n # 0 ELSE m.v.v
               s1 == [st EXCEPT !.l = lb.st]
           IN IF q.isOr /\ left THEN V2([k |-> "b", v |-> TRUE], s1, lb.ops)
              ELSE IF ~q.isOr /\ ~left THEN V2([k |-> "b", v |-> FALSE], s1, lb.ops)
              ELSE LET n == Ev2(q.r, st.r, g, [x EXCEPT !.ops = lb.ops])
                       rb == IF n.v.k = "q" THEN Sel2(q.r, n.st, g, [x EXCEPT !.ops = n.ops]) ELSE R2(0, n.st, n.ops)
                       right == IF n.v.k = "q" THEN rb.n # 0 ELSE n.v.v
                   IN V2([k |-> "b", v |-> right], [s1 EXCEPT !.r = rb.st], rb.ops)

\* count(): drain a fresh clone of the argument
CountLoop(q, st, g, x, n) ==
    LET r == Sel2(q, st, g, x) IN IF r.n = 0 THEN [v |-> n, ops |-> r.ops] ELSE CountLoop(q, r.st, g, [x EXCEPT !.ops = r.ops], n + 1)
\* a string-typed argument: a fresh clone is evaluated; a node-set gives the string-value of the FIRST DELIVERED node
VmArgStr(a, g, x) ==
    LET e == Ev2(a, Init2(a), g, x)
    IN IF e.v.k = "s" THEN [ok |-> TRUE, v |-> e.v.v, ops |-> e.ops]
       ELSE IF e.v.k = "q" THEN LET r == Sel2(a, e.st, g, [x EXCEPT !.ops = e.ops])
                                IN [ok |-> TRUE, v |-> IF r.n = 0 THEN "" ELSE StringValue(g.d, r.n), ops |-> r.ops]
       ELSE [ok |-> FALSE, v |-> "", ops |-> e.ops]

\* unionQuery: drain one operand; a node is kept when its identity KEY (getHashCode, XHash.tla) is new.
\* acc = [list, keys]; the hash is computed on a copy of the delivered navigator (same movement log)
HashDev == Deviations \cap {"name-first", "no-prefix"}
UDrain(q, st, g, x, list, keys) ==
    LET r == Sel2(q, st, g, x)
    IN IF r.n = 0 THEN [st |-> r.st, ops |-> r.ops, list |-> list, keys |-> keys]
       ELSE LET k == x.kk[r.n]
                o2 == r.ops \o HashOps(g.d, r.n)
            IN IF k \in keys THEN UDrain(q, r.st, g, [x EXCEPT !.ops = o2], list, keys)
               ELSE UDrain(q, r.st, g, [x EXCEPT !.ops = o2], Append(list, r.n), keys \cup {k})

\* filterQuery.do with the context cursor on the candidate: [ok, st (of the predicate), ops]
DoPred(q, st, g, cand, x) ==
    LET pv == Ev2(q.pred, st.pred, g, [x EXCEPT !.c = cand])
    IN CASE pv.v.k = "b" -> [ok |-> pv.v.v, pst |-> pv.st, ops |-> pv.ops]
         [] pv.v.k = "s" -> [ok |-> pv.v.v # "", pst |-> pv.st, ops |-> pv.ops]
         [] pv.v.k = "n" -> [ok |-> pv.v.v = PosOf(q.in, st.in), pst |-> pv.st, ops |-> pv.ops]
         \* the engine TRUNCATES a numeric predicate before comparing it with the position (recorded finding KF-C03-1):
         \* [1.5] is [1]; a negative fraction truncates to zero or below and matches nothing
         [] pv.v.k = "f" -> [ok |-> ~pv.v.neg /\ (pv.v.v \div (2 ^ pv.v.kk)) = PosOf(q.in, st.in), pst |-> pv.st, ops |-> pv.ops]
         [] pv.v.k = "q" -> LET r == Sel2(q.pred, pv.st, g, [x EXCEPT !.c = cand, !.ops = pv.ops])
                            IN [ok |-> r.n # 0, pst |-> r.st, ops |-> r.ops]
         [] OTHER -> [ok |-> FALSE, pst |-> pv.st, ops |-> pv.ops]

Sel2(q, st, g, x) ==
    CASE q.t = "ctx" -> IF st.count > 0 THEN R2(0, st, x.ops) ELSE R2(x.c, [st EXCEPT !.count = 1], x.ops)
      [] q.t = "abs" -> IF st.count > 0 THEN R2(0, st, x.ops) ELSE R2(1, [st EXCEPT !.count = 1], Append(x.ops, Mv("root", x.c, 1)))
      [] q.t = "union" ->     \* both operands are drained on the first call (the context cursor is put back in between)
           IF ~st.active
           THEN LET a == UDrain(q.l, st.l, g, x, <<>>, {})
                    b == UDrain(q.r, st.r, g, [x EXCEPT !.ops = a.ops], a.list, a.keys)
                IN Sel2(q, [st EXCEPT !.active = TRUE, !.l = a.st, !.r = b.st, !.list = b.list, !.idx = 0], g, [x EXCEPT !.ops = b.ops])
           ELSE IF st.idx >= Len(st.list) THEN R2(0, st, x.ops)
                ELSE R2(st.list[st.idx + 1], [st EXCEPT !.idx = @ + 1], x.ops)
      [] q.t \in {"child", "attr", "anc", "desc", "foll", "prec"} ->
           IF ~st.active
           THEN LET r == Sel2(q.in, st.in, g, x)
                    s0 == [st EXCEPT !.in = r.st, !.posit = IF q.t \in {"child", "desc", "foll", "prec"} /\ ~(q.t = "child" /\ "child-posit-not-reset" \in Deviations)
                                                          THEN 0 ELSE @]
                IN IF r.n = 0 THEN R2(0, s0, r.ops)
                   ELSE IF q.t = "attr" /\ g.d[r.n].k = "attr" THEN Sel2(q, s0, g, [x EXCEPT !.ops = r.ops])
                   ELSE Sel2(q, [s0 EXCEPT !.active = TRUE, !.node = r.n, !.first = TRUE, !.level = 0, !.subOn = FALSE,
                                           !.attrPending = (q.t = "foll" /\ ~q.flag /\ g.d[r.n].k = "attr")],
                             g, [x EXCEPT !.ops = r.ops])
           ELSE (CASE q.t = "child" ->
                       LET it == ChildIter(g, q, st.node, st.first, x.ops)
                       IN IF it.n # 0 THEN R2(it.n, [st EXCEPT !.node = it.node, !.first = FALSE, !.posit = @ + 1], it.ops)
                          ELSE Sel2(q, [st EXCEPT !.active = FALSE], g, [x EXCEPT !.ops = it.ops])
                  [] q.t = "attr" ->
                       LET it == AttrIter(g, q, st.node, x.ops)
                       IN IF it.n # 0 THEN R2(it.n, [st EXCEPT !.node = it.node], it.ops)
                          ELSE Sel2(q, [st EXCEPT !.active = FALSE], g, [x EXCEPT !.ops = it.ops])
                  [] q.t = "anc" ->
                       LET it == AncIter(g, q, st.node, st.first, x.ops)
                       IN IF it.n = 0 THEN Sel2(q, [st EXCEPT !.active = FALSE], g, [x EXCEPT !.ops = it.ops])
                          ELSE LET o2 == it.ops \o HashOps(g.d, it.n)
                               IN IF it.n \in st.table
                                  THEN Sel2(q, [st EXCEPT !.node = it.node, !.first = FALSE], g, [x EXCEPT !.ops = o2])
                                  ELSE R2(it.n, [st EXCEPT !.node = it.node, !.first = FALSE, !.table = @ \cup {it.n}], o2)
                  [] q.t = "desc" ->
                       LET w == DescWalk(g, q, q.flag, [node |-> st.node, level |-> st.level, first |-> st.first], x.ops)
                       IN IF w.n # 0 THEN R2(w.n, [st EXCEPT !.node = w.w.node, !.level = w.w.level, !.first = w.w.first, !.posit = @ + 1], w.ops)
                          ELSE Sel2(q, [st EXCEPT !.active = FALSE, !.level = w.w.level], g, [x EXCEPT !.ops = w.ops])
                  [] q.t = "foll" ->
                       IF q.flag
                       THEN LET it == SibIter(g, q, st.node, TRUE, x.ops)
                            IN IF it.n # 0 THEN R2(it.n, [st EXCEPT !.node = it.node, !.posit = @ + 1], it.ops)
                               ELSE Sel2(q, [st EXCEPT !.active = FALSE], g, [x EXCEPT !.ops = it.ops])
                       ELSE LET r == FollLoop2(g, q, st, x.ops)
                            IN IF r.n # 0 THEN r ELSE Sel2(q, [r.st EXCEPT !.active = FALSE], g, [x EXCEPT !.ops = r.ops])
                  [] q.t = "prec" ->
                       IF q.flag
                       THEN LET it == SibIter(g, q, st.node, FALSE, x.ops)
                            IN IF it.n # 0 THEN R2(it.n, [st EXCEPT !.node = it.node, !.posit = @ + 1], it.ops)
                               ELSE Sel2(q, [st EXCEPT !.active = FALSE], g, [x EXCEPT !.ops = it.ops])
                       ELSE LET r == PrecLoop2(g, q, st, x.ops)
                            IN IF r.n # 0 THEN r ELSE Sel2(q, [r.st EXCEPT !.active = FALSE], g, [x EXCEPT !.ops = r.ops]))
      [] q.t = "dod" ->
           IF st.level = 0
           THEN LET r == Sel2(q.in, st.in, g, x)
                IN IF r.n = 0 THEN R2(0, [st EXCEPT !.in = r.st], r.ops)
                   ELSE IF q.flag /\ Pred(g, q, r.n) THEN R2(r.n, [st EXCEPT !.in = r.st, !.node = r.n, !.posit = 1], r.ops)
                   ELSE LET ch == MvChild(g.d, r.n)
                            o2 == Append(r.ops, Mv("child", r.n, ch))
                        IN IF ch = 0 THEN Sel2(q, [st EXCEPT !.in = r.st, !.node = r.n, !.posit = 0], g, [x EXCEPT !.ops = o2])
                           ELSE DodLoop2(g, q, [st EXCEPT !.in = r.st, !.posit = 0], ch, 1, [x EXCEPT !.ops = o2])
           ELSE LET u == DodUp(g.d, st.node, st.level, x.ops)
                IN IF ~u.ok THEN Sel2(q, [st EXCEPT !.level = 0, !.node = u.node], g, [x EXCEPT !.ops = u.ops])
                   ELSE DodLoop2(g, q, st, u.node, u.level, [x EXCEPT !.ops = u.ops])
      [] q.t = "parent" ->
           LET r == Sel2(q.in, st.in, g, x)
           IN IF r.n = 0 THEN R2(0, [st EXCEPT !.in = r.st], r.ops)
              ELSE LET pa == MvParent(g.d, r.n)
                       o2 == Append(r.ops, Mv("parent", r.n, pa))
                   IN IF pa # 0 /\ Pred(g, q, pa) THEN R2(pa, [st EXCEPT !.in = r.st], o2)
                      ELSE Sel2(q, [st EXCEPT !.in = r.st], g, [x EXCEPT !.ops = o2])
      [] q.t = "self" ->
           LET r == Sel2(q.in, st.in, g, x)
           IN IF r.n = 0 THEN R2(0, [st EXCEPT !.in = r.st], r.ops)
              ELSE IF Pred(g, q, r.n) THEN R2(r.n, [st EXCEPT !.in = r.st], r.ops)
              ELSE Sel2(q, [st EXCEPT !.in = r.st], g, [x EXCEPT !.ops = r.ops])
      [] q.t = "filter" ->
           LET r == Sel2(q.in, st.in, g, x)
               s1 == [st EXCEPT !.in = r.st]
           IN IF r.n = 0 THEN R2(0, s1, r.ops)
              ELSE LET dp == DoPred(q, s1, g, r.n, [x EXCEPT !.ops = r.ops])
                       s2 == [s1 EXCEPT !.pred = dp.pst]
                   IN IF dp.ok
                      THEN LET lv == DepthOf(q.in, s2.in)
                           IN R2(r.n, [s2 EXCEPT !.pm[lv] = @ + 1, !.posit = s2.pm[lv] + 1], dp.ops)
                      ELSE Sel2(q, s2, g, [x EXCEPT !.ops = dp.ops])
      [] q.t = "merge" ->
           IF ~st.active
           THEN LET r == Sel2(q.in, st.in, g, x)
                IN IF r.n = 0 THEN R2(0, [st EXCEPT !.in = r.st], r.ops)
                   ELSE LET ev == Ev2(q.child, st.child, g, [x EXCEPT !.ops = r.ops])          \* evaluated BEFORE the cursor moves
                            dr == Drain2(q.child, ev.st, g, [x EXCEPT !.c = r.n, !.ops = ev.ops], <<>>)
                        IN Sel2(q, [st EXCEPT !.in = r.st, !.child = dr.st, !.active = TRUE, !.list = dr.list, !.idx = 0],
                                g, [x EXCEPT !.ops = dr.ops])
           ELSE IF st.idx < Len(st.list) THEN R2(st.list[st.idx + 1], [st EXCEPT !.idx = @ + 1], x.ops)
                ELSE Sel2(q, [st EXCEPT !.active = FALSE], g, x)
      [] q.t = "group" ->
           LET r == Sel2(q.in, st.in, g, x)
           IN IF r.n = 0 THEN R2(0, [st EXCEPT !.in = r.st], r.ops) ELSE R2(r.n, [st EXCEPT !.in = r.st, !.posit = @ + 1], r.ops)
      [] q.t = "logical" ->
           IF st.done THEN R2(0, st, x.ops)
           ELSE LET v == Ev2(q, st, g, x)
                IN IF v.v.k = "b" /\ v.v.v THEN R2(x.c, [v.st EXCEPT !.done = TRUE], v.ops) ELSE R2(0, [v.st EXCEPT !.done = TRUE], v.ops)
      [] OTHER -> R2(0, st, x.ops)

RECURSIVE Run2From(_, _, _, _, _, _, _)
Run2From(q, st, g, c, acc, fuel, kk) ==
    LET r == Sel2(q, st, g, [c |-> c, ops |-> acc.ops, kk |-> kk])
    IN IF r.n = 0 THEN [nodes |-> acc.nodes, ops |-> r.ops, done |-> TRUE]
       ELSE IF fuel = 0 THEN [nodes |-> Append(acc.nodes, r.n), ops |-> r.ops, done |-> FALSE]
       ELSE Run2From(q, r.st, g, c, [nodes |-> Append(acc.nodes, r.n), ops |-> r.ops], fuel - 1, kk)
\* kk: the identity key of every node (only unions look at it)
RECURSIVE HasUnion(_)
HasUnion(q) == CASE q.t = "union" -> TRUE
                 [] q.t \in AxisKinds \/ q.t = "group" -> HasUnion(q.in)
                 [] q.t = "filter" -> HasUnion(q.in) \/ HasUnion(q.pred)
                 [] q.t = "merge" -> HasUnion(q.in) \/ HasUnion(q.child)
                 [] q.t = "not" -> HasUnion(q.arg)
                 [] q.t = "call" -> \E i \in 1 .. Len(q.args) : HasUnion(q.args[i])
                 [] q.t \in {"logical", "boolean", "numeric"} -> HasUnion(q.l) \/ HasUnion(q.r)
                 [] OTHER -> FALSE
RunAll2(e, g, c) ==
    LET q == Build2(e)
        kk == IF HasUnion(q) THEN [n \in 1 .. Len(g.d) |-> Key(g.d, n, HashDev)] ELSE <<>>
    IN Run2From(q, Init2(q), g, c, [nodes |-> <<>>, ops |-> <<>>], 40 * Len(g.d), kk)

=============================================================================
