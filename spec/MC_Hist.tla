------------------------------ MODULE MC_Hist ------------------------------
(***************************************************************************)
(* Flow A generator for API histories: every sequence of up to MaxCalls    *)
(* calls on ONE compiled expression over NSlots context slots:             *)
(*   S(c) Select at slot c     E(c) Evaluate at slot c                     *)
(*   M(k) MoveNext on the k-th iterator created                            *)
(*   C(k) Current of the k-th iterator (only directly useful after M(k),   *)
(*        but also later, after OTHER iterators have moved)                *)
(* Iterators may be abandoned after any prefix; calls of different         *)
(* iterators interleave in every order (these are also the cooperative     *)
(* schedules of C05).  Context slots are symmetric: slot c+1 is only used  *)
(* after slot c.  The model also emits the expression pool (with modes)    *)
(* and the documents the histories are to be run on.                       *)
(***************************************************************************)
EXTENDS XPools, XCatalog, Json, CSV, IOUtils, SequencesExt

CONSTANTS MaxCalls, NSlots, MaxIters, PoolName

VARIABLES hist, nit, used, moved
vars == <<hist, nit, used, moved>>
OutFile == IOEnv.VERIF_OUT

Op(o, a) == <<o, a>>

Init == hist = <<>> /\ nit = 0 /\ used = 0 /\ moved = {}

Open(o) ==
    /\ nit < MaxIters
    /\ \E c \in 1 .. (IF used < NSlots THEN used + 1 ELSE NSlots) :
         /\ hist' = Append(hist, Op(o, c))
         /\ used' = IF c > used THEN c ELSE used
    /\ nit' = nit + 1
    /\ UNCHANGED moved

Move ==
    /\ \E k \in 1 .. nit : hist' = Append(hist, Op("M", k)) /\ moved' = moved \cup {k}
    /\ UNCHANGED <<nit, used>>

Cur ==
    \* Current of an iterator that has moved, and not twice in a row
    /\ \E k \in moved : /\ (hist = <<>> \/ Last(hist) # Op("C", k))
                        /\ hist' = Append(hist, Op("C", k))
    /\ UNCHANGED <<nit, used, moved>>

Next == Len(hist) < MaxCalls /\ (Open("S") \/ Open("E") \/ Move \/ Cur)
Spec == Init /\ [][Next]_vars

\* a history is emitted when it is maximal and ends in a call that observes
\* something new (M or C or E)
Emit ==
    (Len(hist) = MaxCalls /\ Last(hist)[1] # "S") =>
        CSVWrite("%1$s", <<ToJson([k |-> "skel", h |-> hist])>>, OutFile)

\* ---- pools and documents ------------------------------------------------
Pool == CASE PoolName = "C04" -> PoolC04
          [] PoolName = "C04ops" -> PoolC04ops
          [] PoolName = "C04fn" -> PoolC04fn
          [] PoolName = "C12" -> PoolC12
          [] PoolName = "C12big" -> PoolC12big
          [] PoolName = "C12all" -> PoolC12 \cup PoolC04
          [] PoolName = "C13" -> PoolC13
PoolSeq == SetToSeq(Pool)
DocCode(d) == [i \in 1 .. Len(d) |-> <<d[i].k, d[i].n, d[i].p, d[i].v, d[i].px, d[i].ns>>]
Docs == Catalogue \o ValDocs

EmitPool ==
    hist = <<>> =>
       /\ \A i \in 1 .. Len(PoolSeq) : CSVWrite("%1$s", <<ToJson([k |-> "expr", e |-> PoolSeq[i].e, m |-> PoolSeq[i].m])>>, OutFile)
       /\ \A i \in 1 .. Len(Docs) : CSVWrite("%1$s", <<ToJson([k |-> "doc", d |-> DocCode(Docs[i])])>>, OutFile)
=============================================================================
