------------------------------- MODULE XFExpr -------------------------------
(***************************************************************************)
(* Expressions over the exact binary64 model XFloat: constructors, the     *)
(* TEXT given to Compile, the fragment the properties claim (InScope) and  *)
(* the denotation (Num, Value).  Shared by the generator MC_Float (Flow A) *)
(* and the trace validator XFBatch (Flow B).  A document is the sequence   *)
(* of the string-values of the children v1, v2, ... of the root element r. *)
(***************************************************************************)
EXTENDS XFloat

Lit(s)  == [t |-> "lit", s |-> s]
NodeV(i) == [t |-> "node", i |-> i]
AllV    == [t |-> "all"]
Bin(op, l, r) == [t |-> "bin", op |-> op, l |-> l, r |-> r]
Neg(e)  == [t |-> "neg", e |-> e]
Fn(f, a) == [t |-> "fn", f |-> f, a |-> a]
Cmp(op, l, r) == [t |-> "cmp", op |-> op, l |-> l, r |-> r]
NumStr(s) == [t |-> "numstr", s |-> s]
Sub2(s, p) == [t |-> "sub2", s |-> s, p |-> p]
Sub3(s, p, l) == [t |-> "sub3", s |-> s, p |-> p, l |-> l]
Concat2(a, b) == [t |-> "cat", l |-> a, r |-> b]
SLen(a) == [t |-> "slen", a |-> a]
Pred(c) == [t |-> "pred", c |-> c]             \* /r/*[c], c a comparison with the context node "." as an operand
Dot == [t |-> "dot"]

(***************************************************************************)
(* Text of an expression (every binary operation parenthesised, operators  *)
(* surrounded by spaces)                                                   *)
(***************************************************************************)
IdxStr == <<"1", "2", "3", "4", "5", "6">>
RECURSIVE Text(_)
Text(e) ==
    CASE e.t = "lit"  -> e.s
      [] e.t = "node" -> "/r/v" \o IdxStr[e.i]
      [] e.t = "all"  -> "/r/*"
      [] e.t = "bin"  -> "(" \o Text(e.l) \o " " \o e.op \o " " \o Text(e.r) \o ")"
      [] e.t = "cmp"  -> Text(e.l) \o " " \o e.op \o " " \o Text(e.r)
      [] e.t = "neg"  -> "-" \o Text(e.e)
      [] e.t = "fn"   -> e.f \o "(" \o Text(e.a) \o ")"
      [] e.t = "numstr" -> "number('" \o e.s \o "')"
      [] e.t = "sub2" -> "substring('" \o e.s \o "', " \o Text(e.p) \o ")"
      [] e.t = "sub3" -> "substring('" \o e.s \o "', " \o Text(e.p) \o ", " \o Text(e.l) \o ")"
      [] e.t = "cat"  -> "concat(string(" \o Text(e.l) \o "), '|', string(" \o Text(e.r) \o "))"
      [] e.t = "slen" -> "string-length(string(" \o Text(e.a) \o "))"
      [] e.t = "pred" -> "/r/*[" \o Text(e.c) \o "]"
      [] e.t = "dot"  -> "."

(***************************************************************************)
(* Denotation.  vals = string-values of v1 .. vn                           *)
(***************************************************************************)
RECURSIVE SumFrom(_, _, _)
SumFrom(vals, i, acc) == IF i > Len(vals) THEN acc ELSE SumFrom(vals, i + 1, FAdd(acc, StrToF(vals[i])))

\* sum() is claimed over numeric nodes only: plain numerals without surrounding white space
PlainNumeric(s) == s # "" /\ ~FIsNaN(StrToF(s)) /\ TrimWs(s) = s

IsNodeSet(e) == e.t = "node" \/ e.t = "all"
NodeVals(e, vals) == IF e.t = "node" THEN <<vals[e.i]>> ELSE vals

RECURSIVE Num(_, _)
Num(e, vals) ==
    CASE e.t = "lit"  -> UDecToF(FALSE, e.s)
      [] e.t = "node" -> StrToF(vals[e.i])
      [] e.t = "all"  -> StrToF(vals[1])                 \* number(node-set): the first node in document order
      [] e.t = "neg"  -> FNeg(Num(e.e, vals))
      [] e.t = "numstr" -> StrToF(e.s)
      [] e.t = "bin"  -> LET a == Num(e.l, vals) b == Num(e.r, vals)
                         IN (CASE e.op = "+" -> FAdd(a, b)
                               [] e.op = "-" -> FSub(a, b)
                               [] e.op = "*" -> FMul(a, b)
                               [] e.op = "div" -> FDiv(a, b)
                               [] e.op = "mod" -> FMod(a, b))
      [] e.t = "fn"   -> (CASE e.f = "floor"   -> FFloor(Num(e.a, vals))
                            [] e.f = "ceiling" -> FCeil(Num(e.a, vals))
                            [] e.f = "number"  -> Num(e.a, vals)
                            [] e.f = "sum"     -> SumFrom(vals, 1, FZero(FALSE)))

\* string() of a number as concat()/string-length() see it: plain notation is claimed below one million only
StrOK(x) == FIsFin(x) => /\ FCompare("<", [x EXCEPT !.neg = FALSE], StrToF("1000000"))
                         /\ (FIsZero(x) \/ FCompare(">=", [x EXCEPT !.neg = FALSE], StrToF("0.000001")))

\* mod is claimed for non-negative integers and a non-zero divisor; sum() over numeric nodes
RECURSIVE InScope(_, _)
InScope(e, vals) ==
    CASE e.t = "bin" -> /\ InScope(e.l, vals) /\ InScope(e.r, vals)
                        /\ e.op = "mod" => LET a == Num(e.l, vals) b == Num(e.r, vals)
                                           IN FIsFin(a) /\ FIsFin(b) /\ ~a.neg /\ ~b.neg /\ ~FIsZero(b)
                                              /\ IsIntegral(a) /\ IsIntegral(b)
      [] e.t = "cmp" -> /\ InScope(e.l, vals) /\ InScope(e.r, vals)
                        \* between two node-sets only = and != are claimed
                        /\ (IsNodeSet(e.l) /\ IsNodeSet(e.r)) => e.op \in {"=", "!="}
      [] e.t = "neg" -> InScope(e.e, vals)
      [] e.t = "fn"  -> IF e.f = "sum" THEN \A i \in 1 .. Len(vals) : PlainNumeric(vals[i])
                        ELSE IF e.f = "string"
                        THEN /\ InScope(e.a, vals)
                             /\ StrOK(Num(e.a, vals))
                        ELSE InScope(e.a, vals)
      [] e.t = "cat" -> InScope(e.l, vals) /\ InScope(e.r, vals) /\ StrOK(Num(e.l, vals)) /\ StrOK(Num(e.r, vals))
      [] e.t = "slen" -> InScope(e.a, vals) /\ StrOK(Num(e.a, vals))
      [] e.t = "sub2" -> InScope(e.p, vals)
      [] e.t = "sub3" -> InScope(e.p, vals) /\ InScope(e.l, vals)
      [] e.t = "pred" -> InScope(e.c, vals)
      [] OTHER -> TRUE

\* an expression without a reference to the document is a case of the first document only
RECURSIVE UsesDoc(_)
UsesDoc(e) ==
    CASE e.t \in {"node", "all"} -> TRUE
      [] e.t \in {"bin", "cmp"} -> UsesDoc(e.l) \/ UsesDoc(e.r)
      [] e.t = "neg" -> UsesDoc(e.e)
      [] e.t = "fn"  -> UsesDoc(e.a)
      [] e.t = "cat" -> UsesDoc(e.l) \/ UsesDoc(e.r)
      [] e.t = "slen" -> UsesDoc(e.a)
      [] e.t = "pred" -> TRUE
      [] OTHER -> FALSE

\* substring(): the characters at the positions i with round(p) <= i < round(p) + round(l)
RECURSIVE KeepChars(_, _, _, _)
KeepChars(s, i, lo, hi) ==
    IF i > Len(s) THEN ""
    ELSE LET fi == FFromNat(i)
         IN (IF FCompare(">=", fi, lo) /\ FCompare("<", fi, hi) THEN Ch(s, i) ELSE "") \o KeepChars(s, i + 1, lo, hi)

\* the comparison c with the context node (string-value v) in place of "."
DotNum(e, v, vals) == IF e.t = "dot" THEN StrToF(v) ELSE Num(e, vals)

Value(e, vals) ==
    IF e.t = "sub2" THEN [t |-> "s", v |-> KeepChars(e.s, 1, FRound(Num(e.p, vals)), FInf(FALSE))]
    ELSE IF e.t = "sub3"
    THEN LET rp == FRound(Num(e.p, vals)) IN [t |-> "s", v |-> KeepChars(e.s, 1, rp, FAdd(rp, FRound(Num(e.l, vals))))]
    ELSE IF e.t = "cat" THEN [t |-> "s", v |-> FToStr(Num(e.l, vals)) \o "|" \o FToStr(Num(e.r, vals))]
    ELSE IF e.t = "slen" THEN LET x == FFromNat(Len(FToStr(Num(e.a, vals)))) IN [t |-> "n", c |-> x.c, neg |-> x.neg, m |-> x.m, e |-> x.e]
    ELSE IF e.t = "pred"
    THEN [t |-> "ns", v |-> {i \in 1 .. Len(vals) : FCompare(e.c.op, DotNum(e.c.l, vals[i], vals), DotNum(e.c.r, vals[i], vals))}]
    ELSE IF e.t = "cmp"
    THEN [t |-> "b", v |->
            IF IsNodeSet(e.l) /\ IsNodeSet(e.r)
            THEN \* node-set with node-set: string comparison for = and !=, numbers for the relational operators
                 LET ls == NodeVals(e.l, vals) rs == NodeVals(e.r, vals)
                 IN \E i \in 1 .. Len(ls), j \in 1 .. Len(rs) :
                        IF e.op = "=" THEN ls[i] = rs[j]
                        ELSE IF e.op = "!=" THEN ls[i] # rs[j]
                        ELSE FCompare(e.op, StrToF(ls[i]), StrToF(rs[j]))
            ELSE IF IsNodeSet(e.l)
            THEN LET ls == NodeVals(e.l, vals) b == Num(e.r, vals)
                 IN \E i \in 1 .. Len(ls) : FCompare(e.op, StrToF(ls[i]), b)
            ELSE IF IsNodeSet(e.r)
            THEN LET rs == NodeVals(e.r, vals) a == Num(e.l, vals)
                 IN \E j \in 1 .. Len(rs) : FCompare(e.op, a, StrToF(rs[j]))
            ELSE FCompare(e.op, Num(e.l, vals), Num(e.r, vals))]
    ELSE IF e.t = "fn" /\ e.f = "string"
    THEN [t |-> "s", v |-> FToStr(Num(e.a, vals))]
    ELSE LET x == Num(e, vals) IN [t |-> "n", c |-> x.c, neg |-> x.neg, m |-> x.m, e |-> x.e]

=============================================================================
