------------------------------- MODULE XSem -------------------------------
(***************************************************************************)
(* Abstract syntax and the XPath 1.0 denotation (plus the XPath 2.0        *)
(* functions ends-with, lower-case, string-join, reverse the engine        *)
(* supports).  This is the reference every conformance check compares the  *)
(* engine against.                                                         *)
(*                                                                         *)
(* Evaluation environment g:                                               *)
(*   g.d    the document (XDoc)                                            *)
(*   g.map  TRUE iff the expression was compiled with a namespace map      *)
(*   g.ns   the map, a function prefix -> URI (only bound prefixes)        *)
(*   g.uri  TRUE iff the navigator exposes namespace URIs                  *)
(* Context c: [n |-> context node, pos |-> position, size |-> size].       *)
(***************************************************************************)
EXTENDS XDoc, XValue

(***************************************************************************)
(* AST constructors                                                        *)
(***************************************************************************)
NT(k, px, n) == [k |-> k, px |-> px, n |-> n]
NTName(n)   == NT("name", "", n)
NTQName(px, n) == NT("name", px, n)
NTAny       == NT("any", "", "")
NTNode      == NT("node", "", "")
NTText      == NT("text", "", "")
NTComment   == NT("comment", "", "")

Step(ax, nt, preds) == [ax |-> ax, nt |-> nt, preds |-> preds]
Path(abs, steps)    == [t |-> "path", abs |-> abs, steps |-> steps]
Filter(e, preds, steps) == [t |-> "filter", e |-> e, preds |-> preds, steps |-> steps]
Union(l, r)  == [t |-> "union", l |-> l, r |-> r]
\* the engine's  base/(s1, s2, ...)  sequence step
SeqStep(base, alts) == [t |-> "seqstep", base |-> base, alts |-> alts]
Bin(op, l, r) == [t |-> "bin", op |-> op, l |-> l, r |-> r]
Neg(e)       == [t |-> "neg", e |-> e]
Lit(s)       == [t |-> "lit", s |-> s]
NumLit(x)    == [t |-> "num", v |-> x]
Call(f, args) == [t |-> "call", f |-> f, args |-> args]

ArithOps == {"+", "-", "*", "div", "mod"}
BoolOps  == {"or", "and"}

Env(d) == [d |-> d, map |-> FALSE, ns |-> <<>>, uri |-> TRUE]
Ctx(n) == [n |-> n, pos |-> 1, size |-> 1]

(***************************************************************************)
(* Node tests                                                              *)
(***************************************************************************)
NameMatch(g, nt, i) ==
    LET nd == g.d[i] IN
    IF g.map /\ nt.px # "" /\ g.uri
    THEN nd.n = nt.n /\ nt.px \in DOMAIN g.ns /\ nd.ns = g.ns[nt.px]
    ELSE nd.n = nt.n /\ nd.px = nt.px

TestOK(g, ax, nt, i) ==
    LET nd == g.d[i] IN
    CASE nt.k = "name"    -> nd.k = PrincipalKind(ax) /\ NameMatch(g, nt, i)
      [] nt.k = "any"     -> nd.k = PrincipalKind(ax)
      [] nt.k = "node"    -> TRUE
      [] nt.k = "text"    -> nd.k = "text"
      [] nt.k = "comment" -> nd.k = "comment"

RECURSIVE FilterSeq(_, _, _, _)
FilterSeq(g, ax, nt, s) ==
    IF s = <<>> THEN <<>>
    ELSE (IF TestOK(g, ax, nt, Head(s)) THEN <<Head(s)>> ELSE <<>>) \o FilterSeq(g, ax, nt, Tail(s))

SeqToSet(s) == {s[i] : i \in 1 .. Len(s)}

(***************************************************************************)
(* Conversions                                                             *)
(***************************************************************************)
FirstOf(S) == CHOOSE i \in S : \A j \in S : i <= j

ToBool(v) ==
    CASE v.t = "b"  -> v.v
      [] v.t = "n"  -> IF IsInx(v.v) THEN Assert(FALSE, "boolean() of a number outside the exact model")
                       ELSE ~(IsNaN(v.v) \/ IsZero(v.v))
      [] v.t = "s"  -> v.v # ""
      [] v.t = "ns" -> v.v # {}

ToStr(g, v) ==
    CASE v.t = "s"  -> v.v
      [] v.t = "b"  -> IF v.v THEN "true" ELSE "false"
      [] v.t = "n"  -> NumToStr(v.v)
      [] v.t = "ns" -> IF v.v = {} THEN "" ELSE StringValue(g.d, FirstOf(v.v))

ToNum(g, v) ==
    CASE v.t = "n"  -> v.v
      [] v.t = "b"  -> IF v.v THEN NumInt(1) ELSE NumInt(0)
      [] v.t = "s"  -> StrToNum(v.v)
      [] v.t = "ns" -> StrToNum(ToStr(g, v))

StrCompare(op, a, b) == IF op = "=" THEN a = b ELSE a # b

(***************************************************************************)
(* Comparison matrix, XPath 1.0 section 3.4                                *)
(***************************************************************************)
Flip(op) == CASE op = "<" -> ">" [] op = "<=" -> ">=" [] op = ">" -> "<" [] op = ">=" -> "<="
              [] op = "=" -> "=" [] op = "!=" -> "!="

\* both operands are not node-sets
CompareScalar(g, op, a, b) ==
    IF op \in EqOps
    THEN IF a.t = "b" \/ b.t = "b" THEN (IF op = "=" THEN ToBool(a) = ToBool(b) ELSE ToBool(a) # ToBool(b))
         ELSE IF a.t = "n" \/ b.t = "n" THEN NumCompare(op, ToNum(g, a), ToNum(g, b))
         ELSE StrCompare(op, a.v, b.v)
    ELSE NumCompare(op, ToNum(g, a), ToNum(g, b))

\* a is a node-set, b is not
CompareNS1(g, op, S, b) ==
    CASE b.t = "b" -> CompareScalar(g, op, VB(S # {}), b)
      [] b.t = "n" -> \E i \in S : NumCompare(op, StrToNum(StringValue(g.d, i)), b.v)
      [] b.t = "s" -> IF op \in EqOps
                      THEN \E i \in S : StrCompare(op, StringValue(g.d, i), b.v)
                      ELSE \E i \in S : NumCompare(op, StrToNum(StringValue(g.d, i)), StrToNum(b.v))

Compare(g, op, a, b) ==
    IF a.t = "ns" /\ b.t = "ns"
    THEN IF op \in EqOps
         THEN \E i \in a.v, j \in b.v : StrCompare(op, StringValue(g.d, i), StringValue(g.d, j))
         ELSE \E i \in a.v, j \in b.v :
                 NumCompare(op, StrToNum(StringValue(g.d, i)), StrToNum(StringValue(g.d, j)))
    ELSE IF a.t = "ns" THEN CompareNS1(g, op, a.v, b)
    ELSE IF b.t = "ns" THEN CompareNS1(g, Flip(op), b.v, a)
    ELSE CompareScalar(g, op, a, b)

\* every number a comparison would look at lies in the exact model
NumsOf(g, v) ==
    CASE v.t = "ns" -> {StrToNum(StringValue(g.d, i)) : i \in v.v}
      [] v.t = "s"  -> {StrToNum(v.v)}
      [] v.t = "n"  -> {v.v}
      [] OTHER      -> {}
CmpDefined(g, a, b) == \A x \in NumsOf(g, a) \cup NumsOf(g, b) : ~IsInx(x)

Arith(op, x, y) ==
    CASE op = "+"   -> NumAdd(x, y)
      [] op = "-"   -> NumSub(x, y)
      [] op = "*"   -> NumMul(x, y)
      [] op = "div" -> NumDiv(x, y)
      [] op = "mod" -> NumMod(x, y)

RECURSIVE SumNums(_, _)
SumNums(g, s) == IF s = <<>> THEN NumInt(0)
                 ELSE NumAdd(StrToNum(StringValue(g.d, Head(s))), SumNums(g, Tail(s)))

RECURSIVE MapSV(_, _)
MapSV(g, s) == IF s = <<>> THEN <<>> ELSE <<StringValue(g.d, Head(s))>> \o MapSV(g, Tail(s))

(***************************************************************************)
(* Denotation                                                              *)
(***************************************************************************)
RECURSIVE Eval(_, _, _), EvalSteps(_, _, _), StepSeq(_, _, _), ApplyPreds(_, _, _),
          KeepFrom(_, _, _, _), PredTrue(_, _, _), CallFn(_, _, _, _), EvalArgs(_, _, _),
          UnionOfSteps(_, _, _)

\* is predicate p true at context c?  A number means "position() = number".
PredTrue(g, p, c) ==
    LET v == Eval(p, g, c)
    IN IF v.t = "n" THEN NumCompare("=", v.v, NumInt(c.pos)) ELSE ToBool(v)

KeepFrom(g, s, p, i) ==
    IF i > Len(s) THEN <<>>
    ELSE (IF PredTrue(g, p, [n |-> s[i], pos |-> i, size |-> Len(s)]) THEN <<s[i]>> ELSE <<>>)
         \o KeepFrom(g, s, p, i + 1)

ApplyPreds(g, s, preds) ==
    IF preds = <<>> THEN s ELSE ApplyPreds(g, KeepFrom(g, s, Head(preds), 1), Tail(preds))

\* one step from one node: candidates in proximity order, node test, predicates
StepSeq(g, st, n) ==
    ApplyPreds(g, FilterSeq(g, st.ax, st.nt, AxisSeq(g.d, st.ax, n)), st.preds)

EvalSteps(g, steps, S) ==
    IF steps = <<>> THEN S
    ELSE EvalSteps(g, Tail(steps), UNION {SeqToSet(StepSeq(g, Head(steps), n)) : n \in S})

UnionOfSteps(g, alts, S) ==
    IF alts = <<>> THEN {}
    ELSE EvalSteps(g, <<Head(alts)>>, S) \cup UnionOfSteps(g, Tail(alts), S)

EvalArgs(g, args, c) ==
    IF args = <<>> THEN <<>> ELSE <<Eval(Head(args), g, c)>> \o EvalArgs(g, Tail(args), c)

\* string value of optional first argument (context node when absent)
ArgStr(g, a, c) == IF a = <<>> THEN StringValue(g.d, c.n) ELSE ToStr(g, a[1])
\* node designated by optional node-set argument: 0 = none
ArgNode(a, c) == IF a = <<>> THEN c.n ELSE IF a[1].v = {} THEN 0 ELSE FirstOf(a[1].v)

CallFn(g, f, a, c) ==
    CASE f = "last"      -> VN(NumInt(c.size))
      [] f = "position"  -> VN(NumInt(c.pos))
      [] f = "count"     -> VN(NumInt(Cardinality(a[1].v)))
      [] f = "true"      -> VB(TRUE)
      [] f = "false"     -> VB(FALSE)
      [] f = "not"       -> VB(~ToBool(a[1]))
      [] f = "boolean"   -> VB(ToBool(a[1]))
      [] f = "number"    -> VN(IF a = <<>> THEN StrToNum(StringValue(g.d, c.n)) ELSE ToNum(g, a[1]))
      [] f = "string"    -> VS(ArgStr(g, a, c))
      [] f = "sum"       -> VN(SumNums(g, Asc(g.d, a[1].v)))
      [] f = "floor"     -> VN(NumFloor(ToNum(g, a[1])))
      [] f = "ceiling"   -> VN(NumCeil(ToNum(g, a[1])))
      [] f = "round"     -> VN(NumRound(ToNum(g, a[1])))
      [] f = "concat"    -> VS(JoinSeq([i \in 1 .. Len(a) |-> ToStr(g, a[i])], ""))
      [] f = "contains"    -> VB(StrContains(ToStr(g, a[1]), ToStr(g, a[2])))
      [] f = "starts-with" -> VB(StrStartsWith(ToStr(g, a[1]), ToStr(g, a[2])))
      [] f = "ends-with"   -> VB(StrEndsWith(ToStr(g, a[1]), ToStr(g, a[2])))
      [] f = "substring-before" -> VS(StrBefore(ToStr(g, a[1]), ToStr(g, a[2])))
      [] f = "substring-after"  -> VS(StrAfter(ToStr(g, a[1]), ToStr(g, a[2])))
      [] f = "substring"  -> VS(SubstringSpec(ToStr(g, a[1]), ToNum(g, a[2]), Len(a) = 3,
                                              IF Len(a) = 3 THEN ToNum(g, a[3]) ELSE NaN))
      [] f = "string-length"   -> VN(NumInt(Len(ArgStr(g, a, c))))
      [] f = "normalize-space" -> VS(NormalizeSpace(ArgStr(g, a, c)))
      [] f = "translate"  -> VS(Translate(ToStr(g, a[1]), ToStr(g, a[2]), ToStr(g, a[3])))
      [] f = "lower-case" -> VS(LowerCase(ToStr(g, a[1])))
      [] f = "string-join" -> VS(JoinSeq(MapSV(g, Asc(g.d, a[1].v)), ToStr(g, a[2])))
      [] f = "name"       -> VS(IF ArgNode(a, c) = 0 THEN "" ELSE QName(g.d, ArgNode(a, c)))
      [] f = "local-name" -> VS(IF ArgNode(a, c) = 0 THEN "" ELSE g.d[ArgNode(a, c)].n)
      [] f = "namespace-uri" -> VS(IF ArgNode(a, c) = 0 THEN "" ELSE g.d[ArgNode(a, c)].ns)
      [] f = "reverse"    -> a[1]          \* as a SET; the order is in SeqOf
      [] OTHER            -> VErr("unknown function")

\* a value outside the specified model (Inexact number / error marker)
Bad(v) == v.t = "err" \/ (v.t = "n" /\ IsInx(v.v))
AnyBad(vs) == \E i \in 1 .. Len(vs) : Bad(vs[i])

Eval(e, g, c) ==
    CASE e.t = "path"   -> VNS(EvalSteps(g, e.steps, IF e.abs THEN {1} ELSE {c.n}))
      [] e.t = "filter" ->
            LET b == Eval(e.e, g, c)
            IN IF b.t # "ns" THEN (IF e.preds = <<>> /\ e.steps = <<>> THEN b ELSE VErr("filter on non-node-set"))
               ELSE VNS(EvalSteps(g, e.steps, SeqToSet(ApplyPreds(g, Asc(g.d, b.v), e.preds))))
      [] e.t = "union"  ->
            LET l == Eval(e.l, g, c)  r == Eval(e.r, g, c)
            IN IF l.t = "ns" /\ r.t = "ns" THEN VNS(l.v \cup r.v) ELSE VErr("union of non-node-set")
      [] e.t = "seqstep" ->
            LET b == Eval(e.base, g, c)
            IN IF b.t # "ns" THEN VErr("step on non-node-set") ELSE VNS(UnionOfSteps(g, e.alts, b.v))
      [] e.t = "bin"    ->
            LET l == Eval(e.l, g, c) IN
            IF Bad(l) THEN VErr("outside model")
            ELSE IF e.op = "or" /\ ToBool(l) THEN VB(TRUE)
            ELSE IF e.op = "and" /\ ~ToBool(l) THEN VB(FALSE)
            ELSE LET r == Eval(e.r, g, c) IN
                 IF Bad(r) THEN VErr("outside model")
                 ELSE IF e.op \in BoolOps THEN VB(ToBool(r))
                 ELSE IF e.op \in CmpOps THEN (IF CmpDefined(g, l, r) THEN VB(Compare(g, e.op, l, r)) ELSE VErr("outside model"))
                 ELSE VN(Arith(e.op, ToNum(g, l), ToNum(g, r)))
      [] e.t = "neg"    -> LET v == Eval(e.e, g, c) IN IF Bad(v) THEN VErr("outside model") ELSE VN(NumNeg(ToNum(g, v)))
      [] e.t = "lit"    -> VS(e.s)
      [] e.t = "num"    -> VN(e.v)
      [] e.t = "call"   -> LET a == EvalArgs(g, e.args, c)
                           IN IF AnyBad(a) THEN VErr("outside model") ELSE CallFn(g, e.f, a, c)

(***************************************************************************)
(* Tainted(e, g, c): does evaluating e at c look at a value outside the    *)
(* exact model anywhere - also inside predicates, for every candidate?     *)
(* Computed bottom-up, so that Eval is only ever applied to expressions    *)
(* whose parts are clean.  Conformance checks skip tainted cases.          *)
(***************************************************************************)
RECURSIVE Tainted(_, _, _), TaintedSteps(_, _, _), TaintedPreds(_, _, _), TaintedAt(_, _, _, _), TaintedArgs(_, _, _)
TaintedAt(g, s, p, i) ==       \* predicate p over the candidate sequence s, from index i
    IF i > Len(s) THEN FALSE
    ELSE Tainted(p, g, [n |-> s[i], pos |-> i, size |-> Len(s)]) \/ TaintedAt(g, s, p, i + 1)
TaintedPreds(g, s, preds) ==
    IF preds = <<>> THEN FALSE
    ELSE TaintedAt(g, s, Head(preds), 1) \/ TaintedPreds(g, KeepFrom(g, s, Head(preds), 1), Tail(preds))
TaintedSteps(g, steps, S) ==
    IF steps = <<>> THEN FALSE
    ELSE LET st == Head(steps) IN
         \/ \E n \in S : TaintedPreds(g, FilterSeq(g, st.ax, st.nt, AxisSeq(g.d, st.ax, n)), st.preds)
         \/ TaintedSteps(g, Tail(steps), UNION {SeqToSet(StepSeq(g, st, n)) : n \in S})
TaintedArgs(g, args, c) == IF args = <<>> THEN FALSE ELSE Tainted(Head(args), g, c) \/ TaintedArgs(g, Tail(args), c)
Tainted(e, g, c) ==
    CASE e.t = "path"   -> TaintedSteps(g, e.steps, IF e.abs THEN {1} ELSE {c.n})
      [] e.t = "filter" ->
            \/ Tainted(e.e, g, c)
            \/ LET b == Eval(e.e, g, c) IN
               b.t = "ns" /\ (\/ TaintedPreds(g, Asc(g.d, b.v), e.preds)
                              \/ TaintedSteps(g, e.steps, SeqToSet(ApplyPreds(g, Asc(g.d, b.v), e.preds))))
      [] e.t = "union"  -> Tainted(e.l, g, c) \/ Tainted(e.r, g, c)
      [] e.t = "seqstep" -> Tainted(e.base, g, c)
      [] e.t = "bin"    -> Tainted(e.l, g, c) \/ Tainted(e.r, g, c) \/ Bad(Eval(e, g, c))
      [] e.t = "neg"    -> Tainted(e.e, g, c) \/ Bad(Eval(e, g, c))
      [] e.t = "call"   -> TaintedArgs(g, e.args, c) \/ Bad(Eval(e, g, c))
      [] OTHER          -> FALSE

\* prefixes used by the name tests of an expression (CompileWithNS must know them all)
RECURSIVE PrefixesOfSteps(_), PrefixesOf(_), PrefixesOfSeq(_)
PrefixesOfSeq(es) == IF es = <<>> THEN {} ELSE PrefixesOf(Head(es)) \cup PrefixesOfSeq(Tail(es))
PrefixesOfSteps(steps) ==
    IF steps = <<>> THEN {}
    ELSE (IF Head(steps).nt.k = "name" /\ Head(steps).nt.px # "" THEN {Head(steps).nt.px} ELSE {})
         \cup PrefixesOfSeq(Head(steps).preds) \cup PrefixesOfSteps(Tail(steps))
PrefixesOf(e) ==
    CASE e.t = "path"   -> PrefixesOfSteps(e.steps)
      [] e.t = "filter" -> PrefixesOf(e.e) \cup PrefixesOfSeq(e.preds) \cup PrefixesOfSteps(e.steps)
      [] e.t = "union"  -> PrefixesOf(e.l) \cup PrefixesOf(e.r)
      [] e.t = "seqstep" -> PrefixesOf(e.base) \cup PrefixesOfSteps(e.alts)
      [] e.t = "bin"    -> PrefixesOf(e.l) \cup PrefixesOf(e.r)
      [] e.t = "neg"    -> PrefixesOf(e.e)
      [] e.t = "call"   -> PrefixesOfSeq(e.args)
      [] OTHER -> {}

\* node-set result as a set / in document order
EvalSet(e, g, n) == Eval(e, g, Ctx(n)).v
EvalDocOrder(e, g, n) == Asc(g.d, EvalSet(e, g, n))

(***************************************************************************)
(* Does evaluation stay inside the exact number model / defined library?   *)
(* ValueOK(v): v contains no Inexact number and is not an error marker.    *)
(***************************************************************************)
ValueOK(v) == v.t # "err" /\ (v.t = "n" => ~IsInx(v.v))

=============================================================================
