----------------------------- MODULE MC_Damage -----------------------------
(***************************************************************************)
(* C17: valid expressions (Seeds, lexed by the reference lexer) damaged by *)
(* every operator of the listed classes at every applicable position.  A   *)
(* damaged token string is emitted only if the REFERENCE parser rejects it *)
(* (cutting "/a" after the slash leaves the valid "/": filtered by the     *)
(* specification, not by a heuristic).  Compile must return an error.      *)
(***************************************************************************)
EXTENDS XSyntax, Json, CSV, IOUtils, SequencesExt

OutFile == IOEnv.VERIF_OUT

Seeds == <<
  "a/b[c=1]", "//a[@b='x'][2]", "count(a) + sum(b/c) * 2", "a | b/c", "concat('a', 'b', 'c')",
  "substring(a, 1, 2)", "child::a/descendant::b", "a[b and c or not(d)]", "(a|b)[1]/c", "-a + - 1",
  "a/(b, c)", "string-length(normalize-space(a))", "a[position() = last() - 1]", "../@a", ".//b",
  "/a", "p:a/q:b", "a[.='x']", "starts-with(a, 'x') and contains(b, 'y')", "translate(a, 'ab', 'AB')",
  "1 div 2 mod 3", "a[1][2]", "a/comment()|node()", "ancestor-or-self::*[1]", "boolean(a) or true()",
  "number(a) >= 1.5", "string(a) != ''", "a[text()]/b", "following-sibling::a[last()]", "name(a) = 'a'",
  "substring-before(a, '-')", "ends-with(a, 'z')", "lower-case(a)", "string-join(a, ',')", "matches(a, 'x')",
  "replace(a, 'x', 'y')", "floor(a) - ceiling(b)", "round(a)", "sum(a) < 10", "not(a = 1)", "reverse(a)",
  "local-name(a)", "namespace-uri()", "a[b][c]/d[e]", "(a)[b]", "a//b/@c", "attribute::a", "self::node()/a",
  "a[count(b[c]) > 1]", "concat(a, substring(b, 2), 'x')", "(a + 1) * (b - 2)", "a[@b and (c or d)]",
  "descendant-or-self::a[1]/parent::*", "preceding::a | following::b", "*[1]/*[2]", "@*", "a[not(b)][c != 'x']",
  "sum(a/b[c > 1]) div count(a)", "//*[name() = 'a']", "a/b/c/d", "string(1 + 2)", "a[b = c]", "normalize-space()",
  "processing-instruction('x')", "//processing-instruction('x')/..", "a/processing-instruction()", "a/text()[1]",
  "comment()/..", "a[node()]", "count(//processing-instruction('x'))", "a/(b, text())", "a/(b[1], c)",
  "concat(a, 'b')", "substring(a, 2)", "translate(a, 'b', 'c')", "string-join(a/b, '-')", "starts-with(name(), 'a')" >>

\* compositional seeds: every function with its minimal and maximal argument list, every axis, every operator
RECURSIVE ArgList(_)
ArgList(n) == IF n = 0 THEN "" ELSE IF n = 1 THEN "a" ELSE ArgList(n - 1) \o ", b"
MaxArgs(f) == IF FnSig[f][2] = 99 THEN 3 ELSE FnSig[f][2]
FnSeeds == {f \o "(" \o ArgList(FnSig[f][1]) \o ")" : f \in DOMAIN FnSig}
           \cup {"x[" \o f \o "(" \o ArgList(MaxArgs(f)) \o ") = 1]" : f \in DOMAIN FnSig}
AxisSeeds == {ax \o "::a[1]/b" : ax \in Axes} \cup {"x/" \o ax \o "::*[b]" : ax \in Axes}
             \cup {"count(//a[b/" \o ax \o "::c]) > 0" : ax \in Axes}
OpSeeds == {"a[b " \o o \o " c]" : o \in {"or", "and", "=", "!=", "<", "<=", ">", ">=", "+", "-", "*", "div", "mod", "|"}}
           \cup {"count(a " \o o \o " 1) " \o o2 \o " 'x'" : o \in {"+", "|", "div"}, o2 \in {"=", "and", "-"}}
AllSeeds == Seeds \o SetToSeq(FnSeeds \cup AxisSeeds \cup OpSeeds)

VARIABLES si, op, pos, toks
vars == <<si, op, pos, toks>>

DamageOps == {"cut-after", "cut-in-quote", "delete-closer", "delete-quote", "rename-function", "drop-args", "drop-last-arg", "unknown-axis",
              "bad-qname-1", "bad-qname-2", "bad-qname-3", "bad-qname-4", "bad-qname-5",
              \* near misses: a name one character away from a known axis / function name
              "axis-plus-s", "axis-minus-1", "axis-capital", "function-plus-s", "function-minus-1"}

Init == si = 0 /\ op = "" /\ pos = 0 /\ toks = <<>>
Next ==
    \/ si = 0 /\ (\E i \in 1 .. Len(AllSeeds) : si' = i /\ toks' = Lex(AllSeeds[i])) /\ UNCHANGED <<op, pos>>
    \/ si > 0 /\ op = "" /\ (\E o \in DamageOps : op' = o) /\ (\E p \in 1 .. Len(toks) : pos' = p) /\ UNCHANGED <<si, toks>>
Spec == Init /\ [][Next]_vars

Toks == toks

\* is token p of ts in operator position (binary operator)?
IsOperatorTok(ts, p) ==
    LET t == ts[p] IN
    \/ t.k = "sym" /\ t.s \in {"|", "+", "=", "!=", "<", "<=", ">", ">=", "-"}
    \/ t.k = "sym" /\ t.s = "*" /\ p > 1 /\ ~(ts[p - 1].k = "sym" /\ ts[p - 1].s \in {"/", "//", "@", "::", "(", "[", ","})
    \/ t.k = "name" /\ t.s \in {"and", "or", "div", "mod"} /\ p > 1
         /\ ~(ts[p - 1].k = "sym" /\ ts[p - 1].s \in {"/", "//", "@", "::", "(", "[", ",", "|", "+", "-", "=", "!=", "<", "<=", ">", ">=", "*"})
         /\ ~(ts[p - 1].k = "name" /\ ts[p - 1].s \in {"and", "or", "div", "mod"})

\* index of the ")" matching the "(" at p
RECURSIVE MatchParen(_, _, _)
MatchParen(ts, i, depth) ==
    IF i > Len(ts) THEN 0
    ELSE IF IsSym(ts[i], "(") THEN MatchParen(ts, i + 1, depth + 1)
    ELSE IF IsSym(ts[i], ")") THEN (IF depth = 1 THEN i ELSE MatchParen(ts, i + 1, depth - 1))
    ELSE MatchParen(ts, i + 1, depth)

\* nesting depth of position i relative to the "(" at p (1 = directly inside)
RECURSIVE DepthAt(_, _, _, _)
DepthAt(ts, j, i, d) ==
    IF j >= i THEN d
    ELSE IF ts[j].k = "sym" /\ ts[j].s \in {"(", "["} THEN DepthAt(ts, j + 1, i, d + 1)
    ELSE IF ts[j].k = "sym" /\ ts[j].s \in {")", "]"} THEN DepthAt(ts, j + 1, i, d - 1)
    ELSE DepthAt(ts, j + 1, i, d)
TopLevelIn(ts, p, i) == DepthAt(ts, p, i, 0) = 1
MatchParenFrom(ts, p, c) == MatchParen(ts, p, 0)

RECURSIVE JoinLex(_)
JoinLex(ts) == IF ts = <<>> THEN "" ELSE Head(ts).s \o JoinLex(Tail(ts))

Capital == [a \in {"ancestor", "ancestor-or-self", "attribute", "child", "descendant", "descendant-or-self", "following",
                     "following-sibling", "parent", "preceding", "preceding-sibling", "self", "namespace"} |->
               CASE a = "ancestor" -> "Ancestor" [] a = "ancestor-or-self" -> "Ancestor-or-self" [] a = "attribute" -> "Attribute"
                 [] a = "child" -> "Child" [] a = "descendant" -> "Descendant" [] a = "descendant-or-self" -> "descendant-or-Self"
                 [] a = "following" -> "Following" [] a = "following-sibling" -> "following-Sibling" [] a = "parent" -> "PARENT"
                 [] a = "preceding" -> "Preceding" [] a = "preceding-sibling" -> "Preceding-sibling" [] a = "self" -> "Self"
                 [] a = "namespace" -> "Namespace"]
NoDamage == <<>>
Damaged ==
    LET ts == Toks  t == ts[pos] IN
    CASE op = "cut-after" ->
           IF IsOperatorTok(ts, pos) \/ (t.k = "sym" /\ t.s \in {"/", "//", "[", "(", ",", "@", "::"})
           THEN SubSeq(ts, 1, pos) ELSE NoDamage
      [] op = "cut-in-quote" ->
           IF t.k = "lit" THEN SubSeq(ts, 1, pos - 1) \o <<TBad(SubSeq(t.s, 1, Len(t.s) - 1))>> ELSE NoDamage
      [] op = "delete-closer" ->
           IF t.k = "sym" /\ t.s \in {"]", ")"} THEN SubSeq(ts, 1, pos - 1) \o SubSeq(ts, pos + 1, Len(ts)) ELSE NoDamage
      [] op = "delete-quote" ->      \* the closing quote is lost: the rest of the text is swallowed by the literal
           IF t.k = "lit" /\ ~\E j \in (pos + 1) .. Len(ts) : ts[j].k = "lit" /\ Ch(ts[j].s, 1) = Ch(t.s, 1)
           THEN SubSeq(ts, 1, pos - 1) \o <<TBad(SubSeq(t.s, 1, Len(t.s) - 1) \o JoinLex(SubSeq(ts, pos + 1, Len(ts))))>>
           ELSE NoDamage
      [] op = "rename-function" ->
           IF t.k = "name" /\ pos < Len(ts) /\ IsSym(ts[pos + 1], "(") /\ t.s \notin NodeTypeNames
           THEN [ts EXCEPT ![pos] = TName("nosuchfn")] ELSE NoDamage
      [] op = "drop-args" ->
           IF t.k = "name" /\ pos < Len(ts) /\ IsSym(ts[pos + 1], "(") /\ t.s \notin NodeTypeNames /\ MatchParen(ts, pos + 1, 0) > pos + 2
           THEN SubSeq(ts, 1, pos + 1) \o SubSeq(ts, MatchParen(ts, pos + 1, 0), Len(ts)) ELSE NoDamage
      [] op = "drop-last-arg" ->   \* pos is the top-level comma before the last argument of a call
           IF IsSym(t, ",") /\ \E f \in 1 .. (pos - 2) :
                   /\ ts[f].k = "name" /\ IsSym(ts[f + 1], "(") /\ ts[f].s \notin NodeTypeNames
                   /\ MatchParen(ts, f + 1, 0) > pos
                   /\ ~\E c \in (pos + 1) .. (MatchParen(ts, f + 1, 0) - 1) : IsSym(ts[c], ",") /\ MatchParen(ts, f + 1, 0) = MatchParenFrom(ts, f + 1, c)
                   /\ TopLevelIn(ts, f + 1, pos)
           THEN LET f == CHOOSE f \in 1 .. (pos - 2) :
                          /\ ts[f].k = "name" /\ IsSym(ts[f + 1], "(") /\ ts[f].s \notin NodeTypeNames
                          /\ MatchParen(ts, f + 1, 0) > pos /\ TopLevelIn(ts, f + 1, pos)
                          /\ \A g \in (f + 1) .. (pos - 2) : ~(ts[g].k = "name" /\ IsSym(ts[g + 1], "(") /\ MatchParen(ts, g + 1, 0) > pos /\ TopLevelIn(ts, g + 1, pos))
                IN SubSeq(ts, 1, pos - 1) \o SubSeq(ts, MatchParen(ts, f + 1, 0), Len(ts))
           ELSE NoDamage
      [] op = "unknown-axis" ->
           IF t.k = "name" /\ pos < Len(ts) /\ IsSym(ts[pos + 1], "::") THEN [ts EXCEPT ![pos] = TName("bogus")] ELSE NoDamage
      [] op = "axis-plus-s" ->
           IF t.k = "name" /\ pos < Len(ts) /\ IsSym(ts[pos + 1], "::") THEN [ts EXCEPT ![pos] = TName(t.s \o "s")] ELSE NoDamage
      [] op = "axis-minus-1" ->
           IF t.k = "name" /\ pos < Len(ts) /\ IsSym(ts[pos + 1], "::") /\ Len(t.s) > 2 THEN [ts EXCEPT ![pos] = TName(SubSeq(t.s, 1, Len(t.s) - 1))] ELSE NoDamage
      [] op = "axis-capital" ->
           IF t.k = "name" /\ pos < Len(ts) /\ IsSym(ts[pos + 1], "::") /\ t.s \in DOMAIN Capital THEN [ts EXCEPT ![pos] = TName(Capital[t.s])] ELSE NoDamage
      [] op = "function-plus-s" ->
           IF t.k = "name" /\ pos < Len(ts) /\ IsSym(ts[pos + 1], "(") /\ t.s \notin NodeTypeNames
           THEN [ts EXCEPT ![pos] = TName(t.s \o "s")] ELSE NoDamage
      [] op = "function-minus-1" ->
           IF t.k = "name" /\ pos < Len(ts) /\ IsSym(ts[pos + 1], "(") /\ t.s \notin NodeTypeNames /\ Len(t.s) > 2
           THEN [ts EXCEPT ![pos] = TName(SubSeq(t.s, 1, Len(t.s) - 1))] ELSE NoDamage
      [] op = "bad-qname-1" ->    \* "p:" followed by nothing name-like
           IF t.k = "name" /\ ~(pos < Len(ts) /\ IsSym(ts[pos + 1], "::")) /\ ~(pos < Len(ts) /\ IsSym(ts[pos + 1], "("))
           THEN [ts EXCEPT ![pos] = TBad(t.s \o ":")] ELSE NoDamage
      [] op = "bad-qname-2" ->    \* ":a"
           IF t.k = "name" /\ ~(pos < Len(ts) /\ IsSym(ts[pos + 1], "::")) /\ ~(pos < Len(ts) /\ IsSym(ts[pos + 1], "("))
           THEN [ts EXCEPT ![pos] = TBad(":" \o t.s)] ELSE NoDamage
      [] op = "bad-qname-4" ->    \* "p:-a"  (a local part must start like a name)
           IF t.k = "name" /\ ~(pos < Len(ts) /\ IsSym(ts[pos + 1], "::")) /\ ~(pos < Len(ts) /\ IsSym(ts[pos + 1], "("))
           THEN [ts EXCEPT ![pos] = TBad("p:-" \o t.s)] ELSE NoDamage
      [] op = "bad-qname-5" ->    \* "p:.a"
           IF t.k = "name" /\ ~(pos < Len(ts) /\ IsSym(ts[pos + 1], "::")) /\ ~(pos < Len(ts) /\ IsSym(ts[pos + 1], "("))
           THEN [ts EXCEPT ![pos] = TBad("p:." \o t.s)] ELSE NoDamage
      [] op = "bad-qname-3" ->    \* "p:1"
           IF t.k = "name" /\ ~(pos < Len(ts) /\ IsSym(ts[pos + 1], "::")) /\ ~(pos < Len(ts) /\ IsSym(ts[pos + 1], "("))
           THEN [ts EXCEPT ![pos] = TBad(t.s \o ":1")] ELSE NoDamage

Emit ==
    (op # "" /\ Damaged # NoDamage /\ ~WellFormed(Damaged)) =>
        CSVWrite("%1$s", <<ToJson([k |-> "parse", toks |-> Lexemes(Damaged), sep |-> SepVector(Damaged), want |-> "ERR",
                                   dmg |-> op, seed |-> AllSeeds[si]])>>, OutFile)

\* every seed is a valid expression for the reference lexer + parser, and the
\* lexer recovers the text (joining the lexemes with the mandatory separators)
SeedsValid == (si > 0 /\ op = "") => WellFormed(toks)
=============================================================================
