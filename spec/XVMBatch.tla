------------------------------ MODULE XVMBatch ------------------------------
(***************************************************************************)
(* Trace validation against the implementation-shaped model.  The harness  *)
(* drives the REAL engine on seeded random documents (larger than the      *)
(* exhaustive models reach) and random expressions of the C02/C03 grammar, *)
(* with a recording navigator, and logs per call: document, expression,    *)
(* context node, the delivered node sequence and every cursor movement.    *)
(* This specification reads the trace and requires every event to be       *)
(* exactly the behaviour of XQueryVM2 (nodes and movements).  Events whose *)
(* expression is outside the modelled fragment are counted and skipped.    *)
(* A rejection is MODEL DRIFT (reported, never a verdict): the model is    *)
(* implementation-shaped on purpose.  Two-level fan-out as in XBatch.      *)
(***************************************************************************)
EXTENDS XQueryVM2, Json, CSV, IOUtils

CONSTANTS Chunk, Deviations

Trace == ndJsonDeserialize(IOEnv.VERIF_TRACE)
OutFile == IOEnv.VERIF_OUT

VARIABLES ph, l
vars == <<ph, l>>
Init == ph = 0 /\ l = 0
Next ==
    \/ /\ ph = 0 /\ ph' = 1
       /\ l' \in {c \in 1 .. Len(Trace) : (c - 1) % Chunk = 0}
    \/ /\ ph = 1 /\ ph' = 2
       /\ l' \in l .. (IF l + Chunk - 1 > Len(Trace) THEN Len(Trace) ELSE l + Chunk - 1)
Spec == Init /\ [][Next]_vars

DocOf(code) == [i \in 1 .. Len(code) |-> Node(code[i][1], code[i][2], code[i][5], code[i][6], code[i][3], code[i][4])]

\* ---- the modelled fragment, decided on the AST ----------------------------
IntLit(e) == e.t = "num" /\ e.v.c = "fin" /\ e.v.k = 0 /\ ~e.v.neg
RECURSIVE InF(_), PredF(_, _), NumE(_), HasPath(_)
HasPath(e) == CASE e.t \in {"path", "filter", "union"} -> TRUE
                [] e.t = "bin" -> HasPath(e.l) \/ HasPath(e.r)
                [] e.t = "call" -> \E i \in 1 .. Len(e.args) : HasPath(e.args[i])
                [] OTHER -> FALSE
StrE(e) == e.t = "lit" \/ (e.t = "call" /\ e.f = "local-name" /\ e.args = <<>>)
NumE(e) == \/ IntLit(e)
           \/ e.t = "call" /\ e.f \in {"position", "last"} /\ e.args = <<>>
           \/ e.t = "call" /\ e.f = "count" /\ Len(e.args) = 1 /\ e.args[1].t \in {"path", "union"} /\ InF(e.args[1])
           \/ e.t = "bin" /\ e.op \in {"+", "-"} /\ NumE(e.l) /\ NumE(e.r)
\* first: the predicate is the first one of its step (position()/last() scan with the step's test only there,
\* and only when no path inside the predicate replaces the builder's first input)
PredF(p, first) ==
    /\ UsesPos(p) => (first /\ ~HasPath(p))
    /\ CASE p.t = "num" -> p.v.c = "fin"      \* also fractions: the model truncates like the engine
         [] p.t \in {"path", "filter", "union"} -> InF(p)
         [] p.t = "lit" -> TRUE
         [] p.t = "call" ->
              (CASE p.f = "not" -> Len(p.args) = 1 /\ PredF(p.args[1], first)
                 [] p.f \in {"true", "false"} -> p.args = <<>>
                 [] p.f \in {"contains", "starts-with"} ->
                      Len(p.args) = 2 /\ p.args[2].t = "lit" /\ (p.args[1].t = "lit" \/ (p.args[1].t = "path" /\ InF(p.args[1])))
                 [] OTHER -> NumE(p) \/ StrE(p))
         [] p.t = "bin" ->
              (CASE p.op \in {"and", "or"} -> PredF(p.l, first) /\ PredF(p.r, first)
                 [] p.op \in {"=", "!="} -> \/ (p.l.t = "path" /\ InF(p.l) /\ (StrE(p.r) \/ IntLit(p.r)))
                                            \/ (p.r.t = "path" /\ InF(p.r) /\ (StrE(p.l) \/ IntLit(p.l)))
                                            \/ (StrE(p.l) /\ StrE(p.r)) \/ (NumE(p.l) /\ NumE(p.r))
                                            \/ (p.l.t = "path" /\ InF(p.l) /\ p.r.t = "path" /\ InF(p.r))
                 [] p.op \in {"<", "<=", ">", ">="} -> \/ (p.l.t = "path" /\ InF(p.l) /\ IntLit(p.r))
                                                      \/ (p.r.t = "path" /\ InF(p.r) /\ IntLit(p.l))
                                                      \/ (NumE(p.l) /\ NumE(p.r))
                 [] p.op \in {"+", "-"} -> NumE(p)
                 [] OTHER -> FALSE)
         [] OTHER -> FALSE
InF(e) ==
    CASE e.t = "path" -> \A i \in 1 .. Len(e.steps) :
                            /\ e.steps[i].ax \in Axes
                            /\ e.steps[i].nt.px = ""
                            /\ \A k \in 1 .. Len(e.steps[i].preds) : PredF(e.steps[i].preds[k], k = 1)
      [] e.t = "filter" -> e.e.t = "path" /\ InF(e.e) /\ e.steps = <<>> /\ \A k \in 1 .. Len(e.preds) : PredF(e.preds[k], FALSE) /\ ~UsesPos(e.preds[k])
      [] e.t = "union" -> InF(e.l) /\ InF(e.r)
      [] OTHER -> FALSE

RECURSIVE Unflat(_)
Unflat(ops) == IF ops = <<>> THEN <<>> ELSE <<<<ops[1], ops[2], ops[3]>>>> \o Unflat(SubSeq(ops, 4, Len(ops)))
OpCode(o) == CASE o = "child" -> 1 [] o = "next" -> 2 [] o = "prev" -> 3 [] o = "parent" -> 4 [] o = "root" -> 5
               [] o = "first" -> 6 [] o = "nextattr" -> 7
RECURSIVE FlatOps(_)
FlatOps(ops) == IF ops = <<>> THEN <<>> ELSE <<OpCode(Head(ops)[1]), Head(ops)[2], Head(ops)[3]>> \o FlatOps(Tail(ops))

\* a node-set compared with a number converts string-values to numbers: documents holding a value outside the exact
\* number model (XValue: Inexact) are skipped for such expressions
RECURSIVE NumPathCmp(_)
NumPathCmp(e) ==
    CASE e.t = "bin" -> \/ (e.op \in CmpOps /\ ((e.l.t = "path" /\ e.r.t = "num") \/ (e.r.t = "path" /\ e.l.t = "num")))
                        \/ NumPathCmp(e.l) \/ NumPathCmp(e.r)
      [] e.t = "call" -> \E i \in 1 .. Len(e.args) : NumPathCmp(e.args[i])
      [] e.t = "union" -> NumPathCmp(e.l) \/ NumPathCmp(e.r)
      [] e.t = "path" -> \E i \in 1 .. Len(e.steps) : \E k \in 1 .. Len(e.steps[i].preds) : NumPathCmp(e.steps[i].preds[k])
      [] e.t = "filter" -> NumPathCmp(e.e) \/ \E k \in 1 .. Len(e.preds) : NumPathCmp(e.preds[k])
      [] OTHER -> FALSE
InexactDoc(d) == \E n \in 1 .. Len(d) : LET v == StrToNum(StringValue(d, n)) IN IsInx(v) \/ ~NumCmpDefined(v, NumInt(1))

Verdict(ev) ==
    IF ~InF(ev.e) THEN "skip"
    ELSE IF NumPathCmp(ev.e) /\ InexactDoc(DocOf(ev.d)) THEN "skip"
    ELSE LET run == RunAll2(ev.e, Env(DocOf(ev.d)), ev.ctx)
         IN IF ~run.done THEN "vm-runaway"
            ELSE IF run.nodes # ev.ids THEN "vm-nodes"
            ELSE IF FlatOps(run.ops) # ev.ops THEN "vm-ops"
            ELSE ""

Validate ==
    ph = 2 =>
      LET ev == Trace[l]
          v == Verdict(ev)
      IN IF v = "" THEN TRUE
         ELSE CSVWrite("%1$s", <<ToJson([l |-> l, fail |-> v])>>, OutFile)
=============================================================================
