----------------------------- MODULE MC_Syntax -----------------------------
(***************************************************************************)
(* C10 generator: every chain  operand (operator operand)^k , k <= MaxOps, *)
(* over the 13 binary operators, '|', '/', '//' and optional unary minus,  *)
(* with operands that include the keyword-named names div mod and or and   *)
(* the name test '*'.  For each chain TLC emits the lexemes, the lexical   *)
(* adjacency vector (where whitespace is mandatory) and the parse tree the *)
(* reference parser assigns, rendered in the engine's shape.               *)
(***************************************************************************)
EXTENDS XSyntax, Json, CSV, IOUtils

CONSTANTS MaxOps, OperandIds, OpIds, WithMinus,
          EvalMode   \* TRUE: operands are constants; also emit the VALUE the reference grouping denotes

VARIABLES toks, nops, expectOperand
vars == <<toks, nops, expectOperand>>
OutFile == IOEnv.VERIF_OUT

Operand(id) ==
    CASE id = "a"     -> <<TName("a")>>
      [] id = "b"     -> <<TName("b")>>
      [] id = "a.b"   -> <<TName("a.b")>>      \* names with '.', '-', digits in non-initial position
      [] id = "a-b"   -> <<TName("a-b")>>
      [] id = "a1"    -> <<TName("a1")>>
      [] id = "a.1"   -> <<TName("a.1")>>
      [] id = "a-"    -> <<TName("a-")>>
      [] id = "a-1"   -> <<TName("a-1")>>      \* a hyphen directly followed by a digit stays inside the name (section-2, utf-8)
      [] id = "a-1b"  -> <<TName("a-1b")>>
      [] id = "p:a.b" -> <<TName("p:a.b")>>
      [] id = "1"     -> <<TNum("1")>>
      [] id = ".5"    -> <<TNum(".5")>>
      [] id = "2"     -> <<TNum("2")>>
      [] id = "3"     -> <<TNum("3")>>
      [] id = "0"     -> <<TNum("0")>>
      [] id = "true"  -> <<TName("true"), TSym("("), TSym(")")>>
      [] id = "false" -> <<TName("false"), TSym("("), TSym(")")>>
      [] id = "empty" -> <<TLit("''")>>
      [] id = "lit"   -> <<TLit("'x'")>>
      [] id = "fn"    -> <<TName("true"), TSym("("), TSym(")")>>
      [] id = "fn1"   -> <<TName("count"), TSym("("), TName("a"), TSym(")")>>
      [] id = "paren" -> <<TSym("("), TName("a"), TSym(")")>>
      [] id = "paren2" -> <<TSym("("), TNum("1"), TSym("+"), TNum("2"), TSym(")")>>
      [] id = "div"   -> <<TName("div")>>
      [] id = "mod"   -> <<TName("mod")>>
      [] id = "and"   -> <<TName("and")>>
      [] id = "or"    -> <<TName("or")>>
      [] id = "*"     -> <<TSym("*")>>
      [] id = "@a"    -> <<TSym("@"), TName("a")>>
      [] id = ".."    -> <<TSym("..")>>
      [] id = "."     -> <<TSym(".")>>
      [] id = "ax"    -> <<TName("child"), TSym("::"), TName("a")>>
      [] id = "pred"  -> <<TName("a"), TSym("["), TNum("1"), TSym("]")>>

OpTok(id) == IF id \in {"or", "and", "div", "mod"} THEN TName(id) ELSE TSym(id)
\* after a slash only a step may follow
StepOperands == {"a", "b", "div", "mod", "and", "or", "*", "@a", "..", ".", "ax", "pred", "a.b", "a-b", "a1", "a.1", "a-", "a-1", "a-1b", "p:a.b"}

Init == toks = <<>> /\ nops = 0 /\ expectOperand = TRUE

LastIsSlash == toks # <<>> /\ toks[Len(toks)].k = "sym" /\ toks[Len(toks)].s \in {"/", "//"}

AddOperand ==
    /\ expectOperand
    /\ \E id \in OperandIds : \E m \in (IF WithMinus /\ ~LastIsSlash THEN {0, 1, 2} ELSE {0}) :
         /\ (LastIsSlash => id \in StepOperands)
         /\ toks' = toks \o [j \in 1 .. m |-> TSym("-")] \o Operand(id)
    /\ expectOperand' = FALSE
    /\ UNCHANGED nops
AddOp ==
    /\ ~expectOperand /\ nops < MaxOps
    /\ \E id \in OpIds : toks' = Append(toks, OpTok(id))
    /\ expectOperand' = TRUE /\ nops' = nops + 1
Next == AddOperand \/ AddOp
Spec == Init /\ [][Next]_vars

\* The value cross-check only uses conversions the properties claim (C07/C08):
\* arithmetic on numbers, comparisons between numbers (or =/!= between strings),
\* and/or over anything.  A boolean is never an operand of arithmetic or of a comparison.
RECURSIVE Ty(_), TypedOK(_)
Ty(e) == CASE e.t = "num" -> "n" [] e.t = "neg" -> "n" [] e.t = "lit" -> "s"
           [] e.t = "call" -> "b"
           [] e.t = "filter" -> Ty(e.e)
           [] e.t = "bin" -> IF e.op \in ArithOps THEN "n" ELSE "b"
           [] OTHER -> "x"
TypedOK(e) ==
    CASE e.t \in {"num", "lit", "call"} -> TRUE
      [] e.t = "neg" -> Ty(e.e) = "n" /\ TypedOK(e.e)
      [] e.t = "filter" -> TypedOK(e.e)
      [] e.t = "bin" ->
           /\ TypedOK(e.l) /\ TypedOK(e.r)
           /\ IF e.op \in ArithOps THEN Ty(e.l) = "n" /\ Ty(e.r) = "n"
              ELSE IF e.op \in RelOps THEN Ty(e.l) = "n" /\ Ty(e.r) = "n"
              ELSE IF e.op \in EqOps THEN Ty(e.l) = Ty(e.r) /\ Ty(e.l) \in {"n", "s"}
              ELSE TRUE
      [] OTHER -> FALSE

Emit ==
    (~expectOperand /\ toks # <<>>) =>
      LET r == RefParse(toks)
      IN IF ~r.ok THEN TRUE
         ELSE IF EvalMode
         THEN LET v == Eval(r.a, Env(EmptyDoc), Ctx(1))
              IN IF Bad(v) \/ ~TypedOK(r.a) THEN TRUE
                 ELSE CSVWrite("%1$s", <<ToJson([k |-> "parse", toks |-> Lexemes(toks), sep |-> SepVector(toks), want |-> EForm(r.a),
                                                 val |-> v])>>, OutFile)
         ELSE CSVWrite("%1$s", <<ToJson([k |-> "parse", toks |-> Lexemes(toks), sep |-> SepVector(toks), want |-> EForm(r.a)])>>, OutFile)

\* parser sanity: the reference parser agrees with hand-derived trees
ParserSanity ==
    LET P(ts) == EForm(RefParse(ts).a) IN
    /\ P(<<TNum("1"), TSym("+"), TNum("2"), TSym("*"), TNum("3")>>) = "(num(1) + (num(2) * num(3)))"
    /\ P(<<TNum("1"), TSym("-"), TNum("2"), TSym("-"), TNum("3")>>) = "((num(1) - num(2)) - num(3))"
    /\ P(<<TName("a"), TName("or"), TName("b"), TName("and"), TName("c")>>)
         = "(axis(child,name::a,-) or (axis(child,name::b,-) and axis(child,name::c,-)))"
    /\ P(<<TName("div"), TName("div"), TName("div")>>) = "(axis(child,name::div,-) div axis(child,name::div,-))"
    /\ P(<<TSym("*"), TSym("*"), TSym("*")>>) = "(axis(child,*,-) * axis(child,*,-))"
    /\ P(<<TSym("-"), TSym("-"), TNum("1")>>) = "(num(1) * num(1))"
    /\ P(<<TSym("-"), TName("a"), TSym("|"), TName("b")>>) = "((axis(child,name::a,-) | axis(child,name::b,-)) * num(-1))"
    /\ P(<<TSym("//"), TName("a"), TSym("/"), TSym("@"), TName("b")>>)
         = "axis(attribute,name::b,axis(child,name::a,axis(descendant-or-self,node(),root)))"
    /\ P(<<TSym("("), TName("a"), TSym(")"), TSym("["), TNum("1"), TSym("]")>>) = "filter(group(axis(child,name::a,-)),num(1))"
    /\ ~WellFormed(<<TName("a"), TSym("+")>>) /\ ~WellFormed(<<TName("a"), TSym("["), TNum("1")>>)
    /\ ~WellFormed(<<TName("nosuch"), TSym("("), TSym(")")>>) /\ ~WellFormed(<<TName("count"), TSym("("), TSym(")")>>)
    /\ ~WellFormed(<<TName("a"), TName("b")>>) /\ ~WellFormed(<<TName("bogus"), TSym("::"), TName("a")>>)
=============================================================================
