------------------------------- MODULE XFBatch -------------------------------
(***************************************************************************)
(* Flow B validator over the exact binary64 model.  The harness generates  *)
(* seeded random expressions (decimal literals of 1-20 integer and 0-20    *)
(* fraction digits, document values, + - * div mod, unary minus, floor,    *)
(* ceiling, number(), sum(), string(), substring(), comparisons, also as   *)
(* predicates), runs them on the REAL engine and records the reply with    *)
(* the exact bit pattern of a number.  This specification reads the trace  *)
(* and requires of every event (a) that the recorded text is the rendering *)
(* Text(e) of the recorded tree and (b) that the reply is Value(e, vals).  *)
(* Events outside the claimed fragment (InScope) are skipped.  Two-level   *)
(* fan-out as in XBatch; rejected lines are written to VERIF_OUT.          *)
(***************************************************************************)
EXTENDS XFExpr, Json, CSV, IOUtils, FiniteSets

CONSTANT Chunk

Trace == ndJsonDeserialize(IOEnv.VERIF_TRACE)
OutFile == IOEnv.VERIF_OUT

VARIABLES ph, l
vars == <<ph, l>>

Init == ph = 0 /\ l = 0
Next ==
    \/ /\ ph = 0 /\ ph' = 1
       /\ l' \in {c \in 1 .. Len(Trace) : (c - 1) % Chunk = 0}
    \/ /\ ph = 1 /\ ph' = 2
       /\ l' \in l .. (IF l + Chunk - 1 > Len(Trace) THEN Len(Trace) ELSE l + Chunk - 1)
Spec == Init /\ [][Next]_vars

HasField(r, f) == f \in DOMAIN r

\* "" when the event is allowed, "skip" outside the fragment, otherwise the failure class
Verdict(ev) ==
    IF ev.x # Text(ev.e) THEN "text"
    ELSE IF ~InScope(ev.e, ev.vals) THEN "skip"
    ELSE IF HasField(ev, "panic") THEN "panic:" \o ev.panic
    ELSE LET want == Value(ev.e, ev.vals)
             got  == ev.got
         IN IF got.t # want.t THEN "type"
            ELSE IF want.t = "n"
            THEN (IF got.c # want.c THEN "value"
                  ELSE IF want.c = "nan" THEN ""
                  ELSE IF want.c = "inf" THEN (IF got.neg = want.neg THEN "" ELSE "value")
                  ELSE IF got.neg = want.neg /\ got.m = want.m /\ got.e = want.e THEN "" ELSE "value")
            ELSE IF want.t = "ns" THEN (IF {got.v[i] : i \in 1 .. Len(got.v)} = want.v /\ Len(got.v) = Cardinality(want.v) THEN "" ELSE "set")
            ELSE IF got.v = want.v THEN "" ELSE "value"

Validate ==
    ph = 2 =>
      LET ev == Trace[l]
          v  == Verdict(ev)
      IN IF v = "" THEN TRUE
         ELSE CSVWrite("%1$s", <<ToJson([l |-> l, fail |-> v,
                                         want |-> IF v \in {"skip", "text"} THEN [t |-> "-"] ELSE Value(ev.e, ev.vals)])>>, OutFile)

Sanity == (ph = 1 /\ l = 1) => FloatSanity
=============================================================================
