----------------------------- MODULE MC_Lexical -----------------------------
(***************************************************************************)
(* C06 totality inputs: (a) every string up to MaxChars over one           *)
(* representative per CHARACTER CLASS of the scanner (the harness           *)
(* substitutes further representatives of the same class, incl. invalid    *)
(* UTF-8, NUL and non-ASCII letters, for the placeholder characters), and   *)
(* (b) every TOKEN string up to MaxToks over a token alphabet.  For each    *)
(* the reference lexer/parser verdict is attached (well-formed or not);    *)
(* the property checked on the engine is totality, the verdict feeds the   *)
(* observatory (ill-formed strings the engine accepts).                    *)
(***************************************************************************)
EXTENDS XSyntax, Json, CSV, IOUtils

CONSTANTS MaxChars, MaxToks, CharClasses

TokAlphabet == <<
    TName("a"), TName("div"), TName("and"), TName("text"), TName("count"), TName("child"), TName("p:a"),
    TNum("1"), TNum(".5"), TLit("'x'"), TSym("/"), TSym("//"), TSym("|"), TSym("+"), TSym("-"), TSym("="), TSym("!="),
    TSym("<"), TSym(">="), TSym("*"), TSym("("), TSym(")"), TSym("["), TSym("]"), TSym(","), TSym("@"), TSym("::"),
    TSym("."), TSym(".."), TSym("$"), TBad("'x"), TBad("p:") >>

VARIABLES mode, str, ts
vars == <<mode, str, ts>>
OutFile == IOEnv.VERIF_OUT

Init == mode = "" /\ str = "" /\ ts = <<>>
Next ==
    \/ mode = "" /\ mode' \in {"chars", "toks"} /\ UNCHANGED <<str, ts>>
    \/ mode = "chars" /\ Len(str) < MaxChars /\ (\E c \in CharClasses : str' = str \o c) /\ UNCHANGED <<mode, ts>>
    \/ mode = "toks" /\ Len(ts) < MaxToks /\ (\E i \in 1 .. Len(TokAlphabet) : ts' = Append(ts, TokAlphabet[i])) /\ UNCHANGED <<mode, str>>
Spec == Init /\ [][Next]_vars

Placeholders == {"~", "^", "`"}       \* non-ASCII letter, invalid byte, NUL: substituted by the harness
HasPlaceholder(s) == \E i \in 1 .. Len(s) : Ch(s, i) \in Placeholders

Emit ==
    /\ (mode = "chars" /\ str # "") =>
          CSVWrite("%1$s", <<ToJson([k |-> "chars", s |-> str,
                                     wf |-> IF HasPlaceholder(str) THEN "?" ELSE IF WellFormedText(str) THEN "yes" ELSE "no"])>>, OutFile)
    /\ (mode = "toks" /\ ts # <<>>) =>
          CSVWrite("%1$s", <<ToJson([k |-> "toks", toks |-> Lexemes(ts), sep |-> SepVector(ts),
                                     wf |-> IF WellFormed(ts) THEN "yes" ELSE "no"])>>, OutFile)
=============================================================================
