------------------------------- MODULE XFloat -------------------------------
(***************************************************************************)
(* IEEE 754 binary64 ("double", Go float64) modelled EXACTLY and without   *)
(* any magnitude bound: every finite double is (-1)^neg * m * 2^e with m   *)
(* an arbitrary-precision natural.  TLC's integers are 32 bit, so naturals *)
(* are little-endian sequences of limbs in base 2^15 (the product of two   *)
(* limbs plus a carry stays below 2^31).                                   *)
(*                                                                         *)
(* The module defines correctly rounded (round-to-nearest, ties-to-even)   *)
(*   - decimal text -> double      (DecToDouble, StrToF)                   *)
(*   - + - * div                    (FAdd FSub FMul FDiv)                  *)
(*   - mod as the exact remainder of the truncating division (FMod)        *)
(*   - floor, ceiling, negation, the six comparisons                       *)
(*   - double -> shortest decimal text that reads back as the same double  *)
(*     (FToStr: XPath's string() of a number, plain notation)              *)
(* including gradual underflow, overflow to infinity, signed zeros, NaN.   *)
(* XValue.tla keeps the small exact-dyadic model the big pools use; this   *)
(* module removes its blind spot (values that are not dyadic rationals     *)
(* below 2^30: 0.1 + 0.2, 2^53 + 1, 2^63 mod 5, ...).                      *)
(***************************************************************************)
EXTENDS Integers, Sequences, TLC

B  == 32768          \* limb base 2^15
LB == 15

(***************************************************************************)
(* Arbitrary-precision naturals                                            *)
(***************************************************************************)
RECURSIVE BNorm(_)
BNorm(a) == IF a = <<>> THEN a
            ELSE IF a[Len(a)] = 0 THEN BNorm(SubSeq(a, 1, Len(a) - 1)) ELSE a

RECURSIVE BNat(_)
BNat(n) == IF n = 0 THEN <<>> ELSE <<n % B>> \o BNat(n \div B)

BZero == <<>>
BOne  == <<1>>
BIsZero(a) == a = <<>>
BOdd(a) == a # <<>> /\ a[1] % 2 = 1

RECURSIVE BCmpAt(_, _, _)
BCmpAt(a, b, i) == IF i = 0 THEN 0
                   ELSE IF a[i] > b[i] THEN 1
                   ELSE IF a[i] < b[i] THEN 0 - 1
                   ELSE BCmpAt(a, b, i - 1)
\* three-way comparison of normalised naturals
BCmp(a, b) == IF Len(a) > Len(b) THEN 1
              ELSE IF Len(a) < Len(b) THEN 0 - 1
              ELSE BCmpAt(a, b, Len(a))

Limb(a, i) == IF i <= Len(a) THEN a[i] ELSE 0

RECURSIVE BAddAt(_, _, _, _)
BAddAt(a, b, i, c) ==
    IF i > Len(a) /\ i > Len(b) THEN (IF c = 0 THEN <<>> ELSE <<c>>)
    ELSE LET s == Limb(a, i) + Limb(b, i) + c
         IN <<s % B>> \o BAddAt(a, b, i + 1, s \div B)
BAdd(a, b) == BAddAt(a, b, 1, 0)

\* a - b for a >= b
RECURSIVE BSubAt(_, _, _, _)
BSubAt(a, b, i, br) ==
    IF i > Len(a) THEN <<>>
    ELSE LET s == a[i] - Limb(b, i) - br
         IN IF s < 0 THEN <<s + B>> \o BSubAt(a, b, i + 1, 1)
            ELSE <<s>> \o BSubAt(a, b, i + 1, 0)
BSub(a, b) == BNorm(BSubAt(a, b, 1, 0))

\* a * d + c for 0 <= d < B, 0 <= c < B
RECURSIVE BMulSmallAt(_, _, _, _)
BMulSmallAt(a, d, i, c) ==
    IF i > Len(a) THEN (IF c = 0 THEN <<>> ELSE <<c>>)
    ELSE LET s == a[i] * d + c
         IN <<s % B>> \o BMulSmallAt(a, d, i + 1, s \div B)
BMulSmall(a, d) == IF d = 0 THEN <<>> ELSE BMulSmallAt(a, d, 1, 0)

Zeros(k) == [i \in 1 .. k |-> 0]
BShlLimbs(a, k) == IF a = <<>> THEN a ELSE Zeros(k) \o a

RECURSIVE BMulAt(_, _, _)
BMulAt(a, b, i) == IF i > Len(b) THEN <<>>
                   ELSE BAdd(BShlLimbs(BMulSmall(a, b[i]), i - 1), BMulAt(a, b, i + 1))
BMul(a, b) == IF a = <<>> \/ b = <<>> THEN <<>> ELSE BMulAt(a, b, 1)

RECURSIVE P2(_)
P2(k) == IF k = 0 THEN 1 ELSE 2 * P2(k - 1)      \* k <= 15 wherever it is used

\* a * 2^n
BShl(a, n) == BShlLimbs(BMulSmall(a, P2(n % LB)), n \div LB)

\* <<a div d, a mod d>> for 0 < d < B (the remainder is a plain integer)
RECURSIVE BDivSmallTop(_, _, _, _)
BDivSmallTop(a, d, i, r) ==
    \* returns quotient limbs from position i downwards as a little-endian sequence
    IF i = 0 THEN <<<<>>, r>>
    ELSE LET cur  == r * B + a[i]
             rest == BDivSmallTop(a, d, i - 1, cur % d)
         IN <<rest[1] \o <<cur \div d>>, rest[2]>>
BDivSmall(a, d) == LET x == BDivSmallTop(a, d, Len(a), 0) IN <<BNorm(x[1]), x[2]>>

\* floor(a / 2^n)
BShr(a, n) ==
    LET k == n \div LB
    IN IF k >= Len(a) THEN <<>>
       ELSE BDivSmall(SubSeq(a, k + 1, Len(a)), P2(n % LB))[1]

RECURSIVE BitLenSmall(_)
BitLenSmall(n) == IF n = 0 THEN 0 ELSE 1 + BitLenSmall(n \div 2)
BBitLen(a) == IF a = <<>> THEN 0 ELSE LB * (Len(a) - 1) + BitLenSmall(a[Len(a)])

\* <<a div b, a mod b>> for b > 0: shift-and-subtract from the top bit down
RECURSIVE BDivLoop(_, _, _, _)
BDivLoop(r, bs, k, q) ==
    LET ge == BCmp(r, bs) >= 0
        r2 == IF ge THEN BSub(r, bs) ELSE r
        q2 == IF ge THEN BAdd(BMulSmall(q, 2), BOne) ELSE BMulSmall(q, 2)
    IN IF k = 0 THEN <<q2, r2>> ELSE BDivLoop(r2, BShr(bs, 1), k - 1, q2)
BDivMod(a, b) ==
    IF Len(b) = 1 THEN LET x == BDivSmall(a, b[1]) IN <<x[1], BNat(x[2])>>
    ELSE IF BCmp(a, b) < 0 THEN <<BZero, a>>
    ELSE LET k == BBitLen(a) - BBitLen(b) IN BDivLoop(a, BShl(b, k), k, BZero)

RECURSIVE BPow10(_)
BPow10(f) == IF f = 0 THEN BOne ELSE BMulSmall(BPow10(f - 1), 10)

(***************************************************************************)
(* Doubles.  Canonical form of a finite non-zero double: m has exactly 53  *)
(* bits and -1074 <= e <= 971 (normal), or m has fewer than 53 bits and    *)
(* e = -1074 (subnormal).  Zero: m = <<>>, e = 0.  Canonical records are   *)
(* equal iff the doubles have the same bit pattern.                        *)
(***************************************************************************)
MinE == 0 - 1074
FNaN      == [c |-> "nan", neg |-> FALSE, m |-> <<>>, e |-> 0]
FInf(neg) == [c |-> "inf", neg |-> neg,   m |-> <<>>, e |-> 0]
FZero(neg) == [c |-> "fin", neg |-> neg,  m |-> <<>>, e |-> 0]
FIsNaN(x) == x.c = "nan"
FIsInf(x) == x.c = "inf"
FIsFin(x) == x.c = "fin"
FIsZero(x) == x.c = "fin" /\ x.m = <<>>

Max2(a, b) == IF a > b THEN a ELSE b
Min2(a, b) == IF a < b THEN a ELSE b

(* RoundPack(neg, M, e, sticky): the double nearest to (M + eps) * 2^e,    *)
(* eps = 0 when ~sticky and 0 < eps < 1 otherwise, ties to even.  With     *)
(* sticky the caller provides at least 55 significant bits.                *)
RoundPack(neg, M, e, sticky) ==
    IF M = <<>> THEN FZero(neg)
    ELSE
    LET L     == BBitLen(M)
        shift == Max2(L - 53, MinE - e)
    IN IF shift <= 0
       THEN \* exact: bring into canonical form
            LET t == Min2(53 - L, e - MinE)
            IN IF L + e > 1024 THEN FInf(neg)
               ELSE [c |-> "fin", neg |-> neg, m |-> BShl(M, t), e |-> e - t]
       ELSE LET q    == BShr(M, shift)
                low  == BSub(M, BShl(q, shift))
                half == BShl(BOne, shift - 1)
                c    == BCmp(low, half)
                up   == c > 0 \/ (c = 0 /\ (sticky \/ BOdd(q)))
                q1   == IF up THEN BAdd(q, BOne) ELSE q
                carry == BBitLen(q1) > 53
                q2   == IF carry THEN BShr(q1, 1) ELSE q1
                e2   == IF carry THEN e + shift + 1 ELSE e + shift
            IN IF q2 = <<>> THEN FZero(neg)
               ELSE IF BBitLen(q2) + e2 > 1024 THEN FInf(neg)
               ELSE [c |-> "fin", neg |-> neg, m |-> q2, e |-> e2]

\* the double nearest to (N / D) * 2^e0, N, D > 0
DivRound(neg, N, D, e0) ==
    LET s  == Max2(0, 56 + BBitLen(D) - BBitLen(N))
        qr == BDivMod(BShl(N, s), D)
    IN RoundPack(neg, qr[1], e0 - s, qr[2] # <<>>)

\* digits (a natural) with f fraction digits: D / 10^f
DecToDouble(neg, D, f) == IF D = <<>> THEN FZero(neg) ELSE DivRound(neg, D, BPow10(f), 0)

FFromNat(n) == RoundPack(FALSE, BNat(n), 0, FALSE)
FNeg(x) == IF FIsNaN(x) THEN x ELSE [x EXCEPT !.neg = ~x.neg]

\* magnitudes of two finite doubles on a common exponent
AlignE(x, y) == IF FIsZero(x) THEN y.e ELSE IF FIsZero(y) THEN x.e ELSE Min2(x.e, y.e)
AlignM(x, e) == IF x.m = <<>> THEN <<>> ELSE BShl(x.m, x.e - e)

FAdd(x, y) ==
    IF FIsNaN(x) \/ FIsNaN(y) THEN FNaN
    ELSE IF FIsInf(x) /\ FIsInf(y) THEN (IF x.neg = y.neg THEN x ELSE FNaN)
    ELSE IF FIsInf(x) THEN x
    ELSE IF FIsInf(y) THEN y
    ELSE LET e == AlignE(x, y)
             X == AlignM(x, e)
             Y == AlignM(y, e)
         IN IF x.neg = y.neg THEN RoundPack(x.neg, BAdd(X, Y), e, FALSE)
            ELSE LET c == BCmp(X, Y)
                 IN IF c = 0 THEN FZero(FALSE)
                    ELSE IF c > 0 THEN RoundPack(x.neg, BSub(X, Y), e, FALSE)
                    ELSE RoundPack(y.neg, BSub(Y, X), e, FALSE)

FSub(x, y) == FAdd(x, FNeg(y))

FMul(x, y) ==
    IF FIsNaN(x) \/ FIsNaN(y) THEN FNaN
    ELSE LET sg == (x.neg # y.neg)
         IN IF FIsInf(x) \/ FIsInf(y)
            THEN (IF FIsZero(x) \/ FIsZero(y) THEN FNaN ELSE FInf(sg))
            ELSE RoundPack(sg, BMul(x.m, y.m), x.e + y.e, FALSE)

FDiv(x, y) ==
    IF FIsNaN(x) \/ FIsNaN(y) THEN FNaN
    ELSE LET sg == (x.neg # y.neg)
         IN IF FIsInf(x) THEN (IF FIsInf(y) THEN FNaN ELSE FInf(sg))
            ELSE IF FIsInf(y) THEN FZero(sg)
            ELSE IF FIsZero(y) THEN (IF FIsZero(x) THEN FNaN ELSE FInf(sg))
            ELSE IF FIsZero(x) THEN FZero(sg)
            ELSE DivRound(sg, x.m, y.m, x.e - y.e)

\* the remainder of the truncating division, sign of the dividend (exact)
FMod(x, y) ==
    IF FIsNaN(x) \/ FIsNaN(y) \/ FIsInf(x) \/ FIsZero(y) THEN FNaN
    ELSE IF FIsInf(y) \/ FIsZero(x) THEN x
    ELSE LET e == Min2(x.e, y.e)
             r == BDivMod(AlignM(x, e), AlignM(y, e))[2]
         IN RoundPack(x.neg, r, e, FALSE)

\* integer part of the magnitude and whether the value is an integer (finite x)
IntPart(x) == IF x.e >= 0 THEN BShl(x.m, x.e) ELSE BShr(x.m, 0 - x.e)
IsIntegral(x) == x.e >= 0 \/ x.m = <<>> \/ BShl(BShr(x.m, 0 - x.e), 0 - x.e) = x.m

FFloor(x) ==
    IF ~FIsFin(x) \/ IsIntegral(x) THEN x
    ELSE IF x.neg THEN RoundPack(TRUE, BAdd(IntPart(x), BOne), 0, FALSE)
    ELSE RoundPack(FALSE, IntPart(x), 0, FALSE)

FCeil(x) ==
    IF ~FIsFin(x) \/ IsIntegral(x) THEN x
    ELSE IF x.neg THEN RoundPack(TRUE, IntPart(x), 0, FALSE)          \* ceiling(-0.5) = -0
    ELSE RoundPack(FALSE, BAdd(IntPart(x), BOne), 0, FALSE)

\* XPath round(): the integer closest to x, a tie goes towards +Infinity; x in [-0.5, -0] gives -0.
\* Computed exactly (floor(x + 0.5) in double arithmetic is NOT the same: 0.49999999999999994 + 0.5 rounds to 1).
FRound(x) ==
    IF ~FIsFin(x) \/ IsIntegral(x) THEN x
    ELSE LET k    == 0 - x.e                              \* x.e < 0 here
             I    == BShr(x.m, k)
             frac == BSub(x.m, BShl(I, k))                \* fraction * 2^k, non-zero
             c    == BCmp(frac, BShl(BOne, k - 1))        \* fraction against 1/2
         IN IF x.neg THEN RoundPack(TRUE, IF c > 0 THEN BAdd(I, BOne) ELSE I, 0, FALSE)
            ELSE RoundPack(FALSE, IF c >= 0 THEN BAdd(I, BOne) ELSE I, 0, FALSE)

\* three-way comparison of non-NaN doubles; +0 = -0
FCmp3(x, y) ==
    IF FIsInf(x) /\ FIsInf(y) THEN (IF x.neg = y.neg THEN 0 ELSE IF x.neg THEN 0 - 1 ELSE 1)
    ELSE IF FIsInf(x) THEN (IF x.neg THEN 0 - 1 ELSE 1)
    ELSE IF FIsInf(y) THEN (IF y.neg THEN 1 ELSE 0 - 1)
    ELSE IF FIsZero(x) /\ FIsZero(y) THEN 0
    ELSE IF FIsZero(x) THEN (IF y.neg THEN 1 ELSE 0 - 1)
    ELSE IF FIsZero(y) THEN (IF x.neg THEN 0 - 1 ELSE 1)
    ELSE IF x.neg # y.neg THEN (IF x.neg THEN 0 - 1 ELSE 1)
    ELSE LET e == Min2(x.e, y.e)
             c == BCmp(AlignM(x, e), AlignM(y, e))
         IN IF x.neg THEN 0 - c ELSE c

FCompare(op, x, y) ==
    IF FIsNaN(x) \/ FIsNaN(y) THEN op = "!="
    ELSE LET c == FCmp3(x, y)
         IN CASE op = "="  -> c = 0
              [] op = "!=" -> c # 0
              [] op = "<"  -> c < 0
              [] op = "<=" -> c <= 0
              [] op = ">"  -> c > 0
              [] op = ">=" -> c >= 0

(***************************************************************************)
(* Text -> double: an optional minus sign, digits with at most one dot and *)
(* at least one digit, surrounded by optional white space (the XPath 1.0   *)
(* Number grammar); anything else is NaN.                                  *)
(***************************************************************************)
DigitChars == <<"0", "1", "2", "3", "4", "5", "6", "7", "8", "9">>
Ch(s, i) == SubSeq(s, i, i)
IsDigitCh(c) == \E d \in 1 .. 10 : DigitChars[d] = c
DigitVal(c) == (CHOOSE d \in 1 .. 10 : DigitChars[d] = c) - 1
IsWs(c) == c = " " \/ c = "\t" \/ c = "\n" \/ c = "\r"

RECURSIVE SkipWsL(_, _)
SkipWsL(s, i) == IF i <= Len(s) /\ IsWs(Ch(s, i)) THEN SkipWsL(s, i + 1) ELSE i
RECURSIVE SkipWsR(_, _)
SkipWsR(s, j) == IF j >= 1 /\ IsWs(Ch(s, j)) THEN SkipWsR(s, j - 1) ELSE j
TrimWs(s) == LET i == SkipWsL(s, 1) j == SkipWsR(s, Len(s)) IN IF i > j THEN "" ELSE SubSeq(s, i, j)

\* digits of s[i..j] as a natural; all characters are digits
RECURSIVE DigitsNat(_, _, _, _)
DigitsNat(s, i, j, acc) ==
    IF i > j THEN acc
    ELSE DigitsNat(s, i + 1, j, BAdd(BMulSmall(acc, 10), BNat(DigitVal(Ch(s, i)))))

RECURSIVE AllDigits(_, _, _)
AllDigits(s, i, j) == i > j \/ (IsDigitCh(Ch(s, i)) /\ AllDigits(s, i + 1, j))

RECURSIVE FindDot(_, _)
FindDot(s, i) == IF i > Len(s) THEN 0 ELSE IF Ch(s, i) = "." THEN i ELSE FindDot(s, i + 1)

\* unsigned decimal text (digits with at most one dot, at least one digit) -> double; otherwise NaN
UDecToF(neg, s) ==
    LET dot == FindDot(s, 1)
    IN IF dot = 0
       THEN (IF Len(s) > 0 /\ AllDigits(s, 1, Len(s)) THEN DecToDouble(neg, DigitsNat(s, 1, Len(s), BZero), 0) ELSE FNaN)
       ELSE IF Len(s) > 1 /\ AllDigits(s, 1, dot - 1) /\ AllDigits(s, dot + 1, Len(s))
            THEN DecToDouble(neg, DigitsNat(s, dot + 1, Len(s), DigitsNat(s, 1, dot - 1, BZero)), Len(s) - dot)
            ELSE FNaN

StrToF(str) ==
    LET s == TrimWs(str)
    IN IF s = "" THEN FNaN
       ELSE IF Ch(s, 1) = "-" THEN UDecToF(TRUE, SubSeq(s, 2, Len(s)))
       ELSE UDecToF(FALSE, s)

(***************************************************************************)
(* Double -> text: the shortest plain decimal that reads back as the same  *)
(* double (XPath string() of a number; "NaN", "Infinity", "-Infinity",     *)
(* no "-0").  For f = 0, 1, 2, ... fraction digits the two neighbours      *)
(* floor(x*10^f) and floor(x*10^f)+1 are tried; the first f at which one   *)
(* of them reads back as x wins; when both do, the one nearer to x.        *)
(***************************************************************************)
RECURSIVE NatToStr(_)
NatToStr(a) == IF a = <<>> THEN ""
               ELSE LET qr == BDivSmall(a, 10) IN NatToStr(qr[1]) \o DigitChars[qr[2] + 1]

RECURSIVE ZeroStr(_)
ZeroStr(k) == IF k <= 0 THEN "" ELSE "0" \o ZeroStr(k - 1)

\* the natural D with f fraction digits as text
DecStr(D, f) ==
    LET ds == NatToStr(D)
    IN IF f = 0 THEN (IF ds = "" THEN "0" ELSE ds)
       ELSE LET padded == ZeroStr(f + 1 - Len(ds)) \o ds       \* at least one digit before the dot
            IN SubSeq(padded, 1, Len(padded) - f) \o "." \o SubSeq(padded, Len(padded) - f + 1, Len(padded))

\* |x| * 10^f as <<floor, fractional part is zero, fractional part compared with 1/2>>
ScaledDec(x, f) ==
    LET N == BMul(x.m, BPow10(f))
    IN IF x.e >= 0 THEN <<BShl(N, x.e), TRUE, 0 - 1>>
       ELSE LET q   == BShr(N, 0 - x.e)
                low == BSub(N, BShl(q, 0 - x.e))
            IN <<q, low = <<>>, BCmp(low, BShl(BOne, 0 - x.e - 1))>>

SameMag(x, y) == y.c = "fin" /\ y.m = x.m /\ y.e = x.e

RECURSIVE ShortestAt(_, _)
ShortestAt(x, f) ==
    LET sc   == ScaledDec(x, f)
        dn   == sc[1]
        upn  == BAdd(dn, BOne)
        okdn == SameMag(x, DecToDouble(FALSE, dn, f))
        okup == ~sc[2] /\ SameMag(x, DecToDouble(FALSE, upn, f))
    IN IF okdn /\ okup THEN (IF sc[3] > 0 \/ (sc[3] = 0 /\ BOdd(dn)) THEN DecStr(upn, f) ELSE DecStr(dn, f))
       ELSE IF okdn THEN DecStr(dn, f)
       ELSE IF okup THEN DecStr(upn, f)
       ELSE ShortestAt(x, f + 1)

FToStr(x) ==
    IF FIsNaN(x) THEN "NaN"
    ELSE IF FIsInf(x) THEN (IF x.neg THEN "-Infinity" ELSE "Infinity")
    ELSE IF FIsZero(x) THEN "0"
    ELSE (IF x.neg THEN "-" ELSE "") \o ShortestAt(x, 0)

(***************************************************************************)
(* Sanity: identities that hold in IEEE arithmetic, evaluated by TLC as an *)
(* ASSUME of the models that use the module.                               *)
(***************************************************************************)
D(s) == StrToF(s)
FloatSanity ==
    /\ FAdd(D("0.1"), D("0.2")) # D("0.3")                        \* the classic
    /\ FToStr(FAdd(D("0.1"), D("0.2"))) = "0.30000000000000004"
    /\ FAdd(D("0.5"), D("0.25")) = D("0.75")
    /\ D("9007199254740993") = D("9007199254740992")              \* 2^53 + 1 ties to even
    /\ D("9007199254740995") = D("9007199254740996")
    /\ FMod(D("9223372036854775808"), D("5")) = D("3")            \* 2^63 mod 5
    /\ FDiv(D("1"), D("3")) = D("0.3333333333333333")
    /\ FToStr(FDiv(D("1"), D("3"))) = "0.3333333333333333"
    /\ FToStr(FDiv(D("2"), D("3"))) = "0.6666666666666666"
    /\ FToStr(D("123456.789")) = "123456.789"
    /\ FToStr(FMul(D("1.1"), D("1.1"))) = "1.2100000000000002"
    /\ FToStr(D("100")) = "100" /\ FToStr(D("-0.5")) = "-0.5" /\ FToStr(D("0.001")) = "0.001"
    /\ FDiv(D("1"), D("0")) = FInf(FALSE) /\ FDiv(D("-1"), D("0")) = FInf(TRUE)
    /\ FIsNaN(FDiv(D("0"), D("0"))) /\ FIsNaN(D("abc")) /\ FIsNaN(D("1e5")) /\ FIsNaN(D(""))
    /\ D(" 7 ") = D("7") /\ D(".5") = D("0.5") /\ D("5.") = D("5") /\ FIsNaN(D(".")) /\ FIsNaN(D("1.2.3"))
    /\ FFloor(D("-0.5")) = D("-1") /\ FCeil(D("-0.5")) = FZero(TRUE) /\ FCeil(D("0.2")) = D("1")
    /\ FRound(D("2.5")) = D("3") /\ FRound(D("-2.5")) = D("-2") /\ FRound(D("-0.5")) = FZero(TRUE) /\ FRound(D("-0.2")) = FZero(TRUE)
    /\ FRound(D("0.49999999999999994")) = FZero(FALSE) /\ FRound(D("-1.5000000000000002")) = D("-2") /\ FRound(D("2.4")) = D("2")
    /\ FSub(D("1"), D("1")) = FZero(FALSE) /\ FAdd(FZero(TRUE), FZero(TRUE)) = FZero(TRUE)
    /\ FCompare("=", FZero(TRUE), FZero(FALSE)) /\ ~FCompare("=", FNaN, FNaN) /\ FCompare("!=", FNaN, FNaN)
    /\ FCompare("<", D("0.1"), D("0.10000000000000002")) /\ FCompare("=", D("0.1"), D("0.10000000000000000001"))
=============================================================================
