------------------------------ MODULE XCatalog ------------------------------
(***************************************************************************)
(* Hand-shaped documents that are deeper / wider than the exhaustively     *)
(* enumerated small documents: several candidates share ancestors,         *)
(* siblings and followers; parents have different fan-out; names repeat    *)
(* at different depths; attributes, text and comments are interleaved.     *)
(***************************************************************************)
EXTENDS XDoc

\* a( b(c, c), b(c), c )                      nested same names, fan-out 2,1
Cat1 == Mk(<< <<"elem","a",1,"">>, <<"elem","b",2,"">>, <<"elem","c",3,"">>, <<"elem","c",3,"">>,
              <<"elem","b",2,"">>, <<"elem","c",6,"">>, <<"elem","c",2,"">> >>)
\* a(@a, b(@a, "t", a), <!--k-->, b)          attributes, text, comment
Cat2 == Mk(<< <<"elem","a",1,"">>, <<"attr","a",2,"1">>, <<"elem","b",2,"">>, <<"attr","a",4,"2">>,
              <<"text","",4,"t">>, <<"elem","a",4,"">>, <<"comment","",2,"k">>, <<"elem","b",2,"">> >>)
\* a( a( a( b ) ), b( a ) )                   recursion of one name
Cat3 == Mk(<< <<"elem","a",1,"">>, <<"elem","a",2,"">>, <<"elem","a",3,"">>, <<"elem","b",4,"">>,
              <<"elem","b",2,"">>, <<"elem","a",6,"">> >>)
\* a( b, b( b ), b( b, b ), b(b, b, b) )      fan-out 0..3 under several parents
Cat4 == Mk(<< <<"elem","a",1,"">>, <<"elem","b",2,"">>, <<"elem","b",2,"">>, <<"elem","b",4,"">>,
              <<"elem","b",2,"">>, <<"elem","b",6,"">>, <<"elem","b",6,"">>,
              <<"elem","b",2,"">>, <<"elem","b",9,"">>, <<"elem","b",9,"">>, <<"elem","b",9,"">> >>)
\* a( "1", b("2"), "3", b(@a, "x"), b )       numeric / non-numeric / empty values, mixed content
Cat5 == Mk(<< <<"elem","a",1,"">>, <<"text","",2,"1">>, <<"elem","b",2,"">>, <<"text","",4,"2">>,
              <<"text","",2,"3">>, <<"elem","b",2,"">>, <<"attr","a",7,"2">>, <<"text","",7,"x">>,
              <<"elem","b",2,"">> >>)
\* comment and text directly under the root next to the document element
Cat6 == Mk(<< <<"comment","",1,"c">>, <<"elem","a",1,"">>, <<"elem","b",3,"">>, <<"comment","",1,"d">> >>)

\* a deep branch (7 levels) with following siblings at several levels:
\* a( b( c( a( b( c( a, b ), b ), c ), a ), b ), c )
Cat7 == Mk(<< <<"elem","a",1,"">>, <<"elem","b",2,"">>, <<"elem","c",3,"">>, <<"elem","a",4,"">>, <<"elem","b",5,"">>,
              <<"elem","c",6,"">>, <<"elem","a",7,"">>, <<"elem","b",7,"">>, <<"elem","b",6,"">>, <<"elem","c",5,"">>,
              <<"elem","a",4,"">>, <<"elem","b",3,"">>, <<"elem","c",2,"">> >>)
\* a chain of 6 with a text leaf and an attribute at the bottom, then siblings on the way up
Cat8 == Mk(<< <<"elem","a",1,"">>, <<"elem","a",2,"">>, <<"elem","b",3,"">>, <<"elem","b",4,"">>, <<"elem","a",5,"">>,
              <<"attr","a",6,"1">>, <<"text","",6,"1">>, <<"elem","b",5,"">>, <<"text","",4,"2">>, <<"elem","a",3,"">>,
              <<"elem","b",2,"">> >>)
\* two identical branches four levels deep: nodes at the same depth and the same sibling positions in different branches
\* (lossy position keys, caches keyed by "place")      b( b( b( a( '1' ) ) ), b( b( a( '1' ) ) ) ): the two a are delivered one after the other by //a
Cat9 == Mk(<< <<"elem","b",1,"">>, <<"elem","b",2,"">>, <<"elem","b",3,"">>, <<"elem","a",4,"">>, <<"text","",5,"1">>,
              <<"elem","b",2,"">>, <<"elem","b",7,"">>, <<"elem","a",8,"">>, <<"text","",9,"1">> >>)
Catalogue == <<Cat1, Cat2, Cat3, Cat4, Cat5, Cat6, Cat7, Cat8, Cat9>>

(***************************************************************************)
(* Value documents: node values range over numeric, non-numeric, empty,    *)
(* whitespace-padded, equal pairs and disjoint sets.                       *)
(***************************************************************************)
\* a(@a="1", @b="x", b"1", b"2", c"x", c, d" 1 ", e(b"2", c"3"))
Val1 == Mk(<< <<"elem","a",1,"">>, <<"attr","a",2,"1">>, <<"attr","b",2,"x">>,
              <<"elem","b",2,"">>, <<"text","",5,"1">>,
              <<"elem","b",2,"">>, <<"text","",7,"2">>,
              <<"elem","c",2,"">>, <<"text","",9,"x">>,
              <<"elem","c",2,"">>,
              <<"elem","d",2,"">>, <<"text","",12," 1 ">>,
              <<"elem","e",2,"">>, <<"elem","b",14,"">>, <<"text","",15,"2">>,
              <<"elem","c",14,"">>, <<"text","",17,"3">> >>)
\* a(b"0.5", b"-1", c"10", c"10", d"ab")
Val2 == Mk(<< <<"elem","a",1,"">>,
              <<"elem","b",2,"">>, <<"text","",3,"0.5">>,
              <<"elem","b",2,"">>, <<"text","",5,"-1">>,
              <<"elem","c",2,"">>, <<"text","",7,"10">>,
              <<"elem","c",2,"">>, <<"text","",9,"10">>,
              <<"elem","d",2,"">>, <<"text","",11,"ab">> >>)
\* pairs of attribute values whose CONCATENATIONS coincide ("ab"+"c" = "a"+"bc" = "abc"+""): memo tables keyed by joined arguments
Val3 == Mk(<< <<"elem","r",1,"">>,
              <<"elem","x",2,"">>, <<"attr","s",3,"ab">>, <<"attr","d",3,"c">>,
              <<"elem","y",2,"">>, <<"attr","s",6,"a">>, <<"attr","d",6,"bc">>,
              <<"elem","z",2,"">>, <<"attr","s",9,"a">>, <<"attr","d",9,"b">>,
              <<"elem","w",2,"">>, <<"attr","s",12,"abc">>, <<"attr","d",12,"">> >>)
ValDocs == <<Val1, Val2, Val3>>

ASSUME \A i \in 1 .. Len(Catalogue) : WFDoc(Catalogue[i])
ASSUME \A i \in 1 .. Len(ValDocs) : WFDoc(ValDocs[i]) /\ DocSanity(ValDocs[i])
ASSUME \A i \in 1 .. Len(Catalogue) : DocSanity(Catalogue[i])
=============================================================================
