-------------------------------- MODULE XApi --------------------------------
(***************************************************************************)
(* The public API as a session machine.                                    *)
(*                                                                         *)
(*   Compile(text)           -> handle (one per session here)              *)
(*   Select(h, ctx)          -> iterator                                   *)
(*   Evaluate(h, ctx)        -> scalar | iterator                          *)
(*   MoveNext(it)            -> TRUE + current node | FALSE                *)
(*   Current(it)             -> node last delivered                        *)
(*                                                                         *)
(* Abstract state: the open iterators with what they have delivered.  The  *)
(* specification of a call's reply does NOT depend on the history: the     *)
(* reply of Select/Evaluate is a function of (expression, document,        *)
(* context) only (purity, C04); an iterator delivers the nodes of its      *)
(* result sequence one by one, then FALSE for ever (protocol, C12);        *)
(* Current is the node just delivered.  The result sequence itself is      *)
(* constrained by the denotation according to the expression's mode:       *)
(*   "seq"   flat paths: exactly the denotation in document order          *)
(*   "once"  each node of the denotation exactly once, any order           *)
(*   "set"   the denotation as a set (repeats tolerated)                   *)
(*   "none"  no denotational claim: only purity and protocol               *)
(*                                                                         *)
(* The actions are written as operators on an explicit state record so     *)
(* that the same definitions serve the TLC state machine (MC_Hist), and    *)
(* the validation of recorded engine histories (XApiBatch), which folds    *)
(* them over the events of one history.                                    *)
(***************************************************************************)
EXTENDS XSem, SequencesExt

\* ---- what a fresh evaluation must look like ------------------------------
NoDup(s) == \A i, j \in 1 .. Len(s) : i # j => s[i] # s[j]

\* obs: [ids |-> seq] or [val |-> tagged value] (or [panic |-> class])
\* "" if the observation obs of expression e at node n of g is allowed
ObsVerdict(e, mode, g, n, obs) ==
    IF "panic" \in DOMAIN obs THEN "panic:" \o obs.panic
    ELSE IF mode = "none" THEN ""
    ELSE LET want == Eval(e, g, Ctx(n)) IN
         IF Bad(want) THEN ""
         ELSE IF want.t = "ns"
         THEN IF "ids" \notin DOMAIN obs THEN "type"
              ELSE IF SeqToSet(obs.ids) # want.v THEN "set"
              ELSE IF mode \in {"once", "seq"} /\ ~NoDup(obs.ids) THEN "dup"
              ELSE IF mode = "seq" /\ obs.ids # Asc(g.d, want.v) THEN "order"
              ELSE ""
         ELSE IF "val" \notin DOMAIN obs THEN "type"
         ELSE IF obs.val.t # want.t THEN "type"
         ELSE IF obs.val.v # want.v THEN "value"
         ELSE ""

\* ---- the session state ---------------------------------------------------
\* iterator: c context slot, given delivered so far, done FALSE-returned
NewIter(c) == [c |-> c, given |-> <<>>, done |-> FALSE]
InitSession == [its |-> <<>>, err |-> ""]

SameValue(a, b) == a.t = b.t /\ a.v = b.v

\* One API call.  fresh[c] is the observation a freshly compiled expression
\* gives at context slot c: by purity every call on the shared handle must
\* reply exactly that.
ApiStep(st, ev, fresh) ==
    IF "panic" \in DOMAIN ev
    THEN \* aborting is allowed only where the fresh evaluation aborts the same way
         IF ev.op \in {"Select", "Evaluate"} /\ "panic" \in DOMAIN fresh[ev.ctx] /\ fresh[ev.ctx].panic = ev.panic
         THEN st ELSE [st EXCEPT !.err = "panic:" \o ev.panic]
    ELSE
    CASE ev.op = "Select" ->
           IF "ids" \in DOMAIN fresh[ev.ctx] THEN [st EXCEPT !.its = Append(@, NewIter(ev.ctx))]
           ELSE [st EXCEPT !.its = Append(@, [c |-> ev.ctx, given |-> <<>>, done |-> FALSE])]
      [] ev.op = "Evaluate" ->
           IF "ids" \in DOMAIN fresh[ev.ctx]
           THEN IF "val" \in DOMAIN ev THEN [st EXCEPT !.err = "impure: scalar where a fresh evaluation gives a node-set"]
                ELSE [st EXCEPT !.its = Append(@, NewIter(ev.ctx))]
           ELSE IF "val" \notin DOMAIN ev THEN [st EXCEPT !.err = "impure: node-set where a fresh evaluation gives a scalar"]
                ELSE IF "val" \in DOMAIN fresh[ev.ctx] /\ SameValue(ev.val, fresh[ev.ctx].val) THEN st
                ELSE [st EXCEPT !.err = "impure: value differs from a fresh evaluation"]
      [] ev.op = "MoveNext" ->
           LET it == st.its[ev.it]
               F  == IF "ids" \in DOMAIN fresh[it.c] THEN fresh[it.c].ids ELSE <<>>
           IN IF it.done
              THEN IF ev.ret THEN [st EXCEPT !.err = "protocol: MoveNext true after false"] ELSE st
              ELSE IF ev.ret
                   THEN IF Len(it.given) < Len(F) /\ ev.cur = F[Len(it.given) + 1]
                        THEN [st EXCEPT !.its[ev.it].given = Append(@, ev.cur)]
                        ELSE [st EXCEPT !.err = "impure: node differs from a fresh evaluation"]
                   ELSE IF Len(it.given) = Len(F)
                        THEN [st EXCEPT !.its[ev.it].done = TRUE]
                        ELSE [st EXCEPT !.err = "impure: iteration ends early"]
      [] ev.op = "Count" ->     \* count(e) evaluated through a separately compiled expression
           IF "ids" \in DOMAIN fresh[ev.ctx] /\ ev.val # Len(fresh[ev.ctx].ids)
           THEN [st EXCEPT !.err = "count(e) differs from the length of the sequence Select delivers"] ELSE st
      [] ev.op = "Reverse" ->   \* reverse(e), likewise
           IF "ids" \in DOMAIN fresh[ev.ctx] /\ ev.ids # Reverse(fresh[ev.ctx].ids)
           THEN [st EXCEPT !.err = "reverse(e) is not the reversed sequence of e"] ELSE st
      [] ev.op = "Current" ->
           LET it == st.its[ev.it]
           IN IF it.given # <<>> /\ ~it.done /\ ev.cur # Last(it.given)
              THEN [st EXCEPT !.err = "protocol: Current is not the node just delivered"] ELSE st

\* fold ApiStep over a recorded history; stop at the first rejected event.
\* Result: <<index of the rejected event or 0, reason>>
RECURSIVE RunFrom(_, _, _, _)
RunFrom(st, h, i, fresh) ==
    IF i > Len(h) THEN <<0, "">>
    ELSE LET st2 == ApiStep(st, h[i], fresh)
         IN IF st2.err # "" THEN <<i, st2.err>> ELSE RunFrom(st2, h, i + 1, fresh)

=============================================================================
