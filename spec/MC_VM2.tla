------------------------------- MODULE MC_VM2 -------------------------------
(***************************************************************************)
(* Documents x expressions with predicates, explored with XQueryVM2:       *)
(*   VM2Refines  on the fragment the properties claim (boolean predicates  *)
(*               on every axis - C02; [n] first on a child step and        *)
(*               (path)[n] - C03) the modelled pipeline delivers exactly   *)
(*               the denotation and terminates;                            *)
(*   Emit        the predicted delivery sequence and cursor movements for  *)
(*               EVERY expression of the pool (also where no property      *)
(*               claims the result, e.g. [2] on an ancestor step), for the *)
(*               conformance run against the engine.                       *)
(***************************************************************************)
EXTENDS XQueryVM2, XCatalog, Json, CSV, IOUtils

CONSTANTS MaxNodes, UseCat, CatIds, ElemNames, TextVals, HostAxes, PredAxes, Parts, Deviations

VARIABLES doc, grow, part, expr
vars == <<doc, grow, part, expr>>
OutFile == IOEnv.VERIF_OUT
NoExpr == [t |-> "none"]

R1(ax, nt) == Path(FALSE, <<Step(ax, nt, <<>>)>>)
NumL(i) == NumLit(NumInt(i))
PredPathsVM == {R1(ax, nt) : ax \in PredAxes, nt \in {NTAny, NTName("a")}}
               \cup {Path(FALSE, <<Step("descendant", NTAny, <<>>), Step("descendant", NTName("a"), <<>>)>>),     \* descendant over descendant
                     Path(FALSE, <<Step("child", NTAny, <<>>), Step("child", NTAny, <<NumL(1)>>)>>),               \* merge rewrite inside the predicate
                     Path(FALSE, <<Step("child", NTAny, <<>>), Step("child", NTAny, <<NumL(2)>>)>>),
                     Path(FALSE, <<Step("child", NTAny, <<>>), Step("child", NTName("a"), <<Call("not", <<R1("child", NTAny)>>)>>)>>)}
BoolPreds ==
    PredPathsVM \cup {Call("not", <<pp>>) : pp \in PredPathsVM}
    \cup {Bin(op, pp, Lit("1")) : op \in {"=", "!="}, pp \in PredPathsVM}
    \cup {Bin(op, pp, R1("child", NTAny)) : op \in {"and", "or"}, pp \in PredPathsVM}
    \cup {Bin("or", Call("not", <<pp>>), Bin("=", R1("child", NTAny), Lit("1"))) : pp \in PredPathsVM}
NumPreds == {NumL(1), NumL(2), NumL(3), NumLit(Fin(FALSE, 3, 1)), NumLit(Fin(FALSE, 5, 1)), NumLit(Fin(FALSE, 1, 1)), NumLit(Fin(TRUE, 3, 1)), NumLit(NumInt(0))}
DosN == Step("descendant-or-self", NTNode, <<>>)
HostsOf(ps) ==
    {Path(FALSE, <<Step(hax, NTAny, ps)>>) : hax \in HostAxes}
    \cup {Path(TRUE, <<DosN, Step("child", NTAny, ps)>>), Path(FALSE, <<Step("child", NTAny, <<>>), Step("child", NTAny, ps)>>),
          Path(FALSE, <<Step("child", NTAny, ps), Step("child", NTAny, <<>>)>>),
          Path(FALSE, <<Step("descendant", NTAny, ps), Step("descendant", NTName("a"), <<>>)>>)}
PoolSets ==
  << UNION {HostsOf(<<p>>) : p \in BoolPreds},
     UNION {HostsOf(<<p>>) : p \in NumPreds},
     UNION {HostsOf(<<p, q>>) : p \in NumPreds \cup {R1("child", NTAny)}, q \in {R1("child", NTAny), Call("not", <<R1("following-sibling", NTAny)>>), NumL(1)}},
     {Filter(pa, <<NumL(k)>>, <<>>) : k \in 1 .. 3,
          pa \in {Path(TRUE, <<DosN, Step("child", NTName("a"), <<>>)>>), Path(FALSE, <<Step("child", NTAny, <<>>), Step("child", NTAny, <<>>)>>),
                  R1("child", NTAny), R1("descendant", NTAny)}}
     \cup {Path(FALSE, <<Step(hax, NTAny, <<Filter(pa, <<NumL(k)>>, <<>>)>>)>>) :      \* (path)[n] as a predicate: once per candidate
            hax \in {"child", "descendant"}, k \in 1 .. 2, pa \in {R1("child", NTAny), R1("descendant", NTName("a"))}}
     \cup {Filter(pa, <<p>>, <<>>) : p \in {R1("child", NTAny), Call("not", <<R1("child", NTAny)>>)},
          pa \in {Path(FALSE, <<Step("child", NTAny, <<>>), Step("child", NTAny, <<>>)>>), R1("descendant", NTAny)}} >>

\* part 5: position() / last() in the FIRST predicate (sibling scans with the host step's node test)
CmpOpsVM == {"=", "!=", "<", "<=", ">", ">="}
PosF == Call("position", <<>>)
LastF == Call("last", <<>>)
PosAtomsVM == {Bin(op, PosF, NumL(k)) : op \in CmpOpsVM, k \in 1 .. 2} \cup {Bin(op, PosF, LastF) : op \in CmpOpsVM}
              \cup {LastF, Bin("-", LastF, NumL(1)), Bin("=", PosF, Bin("-", LastF, NumL(1))), Call("not", <<Bin("=", PosF, NumL(1))>>),
                    Bin("or", Bin("=", PosF, NumL(1)), Bin("=", PosF, LastF)), Bin("and", Bin(">", PosF, NumL(1)), Bin("<", PosF, LastF))}
HostsNamed(ps) == {Path(FALSE, <<Step("child", NTName("a"), ps)>>), Path(TRUE, <<DosN, Step("child", NTName("a"), ps)>>),
                   Path(FALSE, <<Step("child", NTAny, <<>>), Step("child", NTText, ps)>>)}
PoolPart5 == UNION {HostsOf(<<p>>) \cup HostsNamed(<<p>>) : p \in PosAtomsVM}
             \cup UNION {HostsOf(<<p, q>>) \cup HostsNamed(<<p, q>>) : p \in {Bin("=", PosF, NumL(2)), LastF, Bin("<", PosF, LastF)},
                                          q \in {R1("child", NTAny), Call("not", <<R1("child", NTAny)>>)}}
\* part 6: unions (C11): operands overlapping, in reverse order, of attributes / text, with predicates; nested; inside predicates
UOperands == {R1("child", NTAny), R1("child", NTName("a")), R1("descendant", NTName("a")), R1("ancestor-or-self", NTAny),
              R1("attribute", NTAny), R1("preceding-sibling", NTAny), R1("self", NTNode), Path(TRUE, <<DosN, Step("child", NTAny, <<>>)>>),
              Path(FALSE, <<Step("child", NTAny, <<R1("child", NTAny)>>)>>), Path(FALSE, <<Step("child", NTAny, <<>>), Step("attribute", NTAny, <<>>)>>),
              Path(FALSE, <<Step("child", NTAny, <<>>), Step("child", NTText, <<>>)>>)}
PoolPart6 == {Union(a, b) : a \in UOperands, b \in UOperands}
             \cup {Union(Union(a, b), R1("child", NTAny)) : a \in UOperands, b \in {R1("descendant", NTName("a")), R1("attribute", NTAny)}}
             \cup {Path(FALSE, <<Step(hax, NTAny, <<Union(a, R1("attribute", NTAny))>>)>>) : hax \in {"child", "descendant"}, a \in UOperands}
             \cup {Path(FALSE, <<Step("child", NTAny, <<Call("not", <<Union(a, R1("attribute", NTAny))>>)>>)>>) : a \in UOperands}
\* part 7: compositions of the rewrites: two merge-rewritten steps in a row, '//' after a positional step, absolute paths
\* and positional paths inside predicates, predicates on both sides of a positional predicate, filters over a union
ChA(ps) == Step("child", NTName("a"), ps)
ChS(ps) == Step("child", NTAny, ps)
PoolPart7 ==
    {Path(ab, <<ChS(<<>>), ChS(<<NumL(i)>>), ChS(<<NumL(j)>>)>>) : ab \in BOOLEAN, i \in 1 .. 2, j \in 1 .. 2}
    \cup {Path(FALSE, <<ChS(<<NumL(i)>>), DosN, ChS(<<NumL(j)>>)>>) : i \in 1 .. 2, j \in 1 .. 2}
    \cup {Path(TRUE, <<DosN, ChS(<<NumL(i)>>), DosN, ChA(<<>>)>>) : i \in 1 .. 2}
    \cup {Path(TRUE, <<DosN, ChS(<<LastF>>), ChS(<<LastF>>)>>), Path(TRUE, <<DosN, ChS(<<Bin("=", PosF, NumL(2))>>), ChS(<<Bin("<", PosF, LastF)>>)>>)}
    \cup {Path(FALSE, <<Step(hax, NTAny, <<pp>>)>>) : hax \in {"child", "descendant", "ancestor"},
             pp \in {Path(TRUE, <<ChS(<<>>), ChA(<<>>)>>), Path(TRUE, <<DosN, ChA(<<NumL(2)>>)>>), Path(TRUE, <<DosN, ChA(<<R1("child", NTAny)>>)>>),
                     Path(FALSE, <<ChS(<<NumL(1)>>), ChS(<<NumL(1)>>)>>), Path(FALSE, <<ChS(<<R1("child", NTAny)>>), ChS(<<NumL(2)>>)>>),
                     Path(FALSE, <<Step("descendant", NTAny, <<R1("child", NTAny)>>), Step("descendant", NTName("a"), <<>>)>>),
                     Call("not", <<Path(TRUE, <<DosN, ChA(<<NumL(2)>>)>>)>>)}}
    \cup {Path(ab, <<DosN, ChS(<<NumL(i), pp>>)>>) : ab \in BOOLEAN, i \in 1 .. 2, pp \in {R1("child", NTAny), R1("following-sibling", NTAny), Call("not", <<R1("child", NTAny)>>)}}
    \cup {Path(ab, <<DosN, ChS(<<pp, NumL(i)>>)>>) : ab \in BOOLEAN, i \in 1 .. 2, pp \in {R1("child", NTAny), Call("not", <<R1("child", NTAny)>>)}}
    \cup {Filter(Union(R1("child", NTAny), R1("descendant", NTName("a"))), <<pp>>, <<>>) : pp \in {NumL(1), NumL(2), R1("child", NTAny), Call("not", <<R1("child", NTAny)>>)}}
\* part 8: function-valued predicates of C02: count() compared with a number, contains()/starts-with() of a path or of '.',
\* local-name() = 'a', true()/false(), and not()/and/or over them
SelfN == Path(FALSE, <<Step("self", NTNode, <<>>)>>)
FnPaths == {R1(ax, NTAny) : ax \in {"child", "descendant", "following-sibling", "ancestor", "attribute"}} \cup {R1("child", NTName("a"))}
FnPreds ==
    {Bin(op, Call("count", <<pp>>), NumL(k)) : op \in {"=", ">", "<"}, k \in 0 .. 2, pp \in FnPaths}
    \cup {Call(f, <<pp, Lit("1")>>) : f \in {"contains", "starts-with"}, pp \in FnPaths \cup {SelfN}}
    \cup {Bin(op, pp, NumL(k)) : op \in {"=", "<", ">=", "!="}, k \in 1 .. 2, pp \in {R1("child", NTAny), R1("descendant", NTAny), SelfN}}
    \cup {Bin(op, NumL(1), pp) : op \in {"<", ">="}, pp \in {R1("child", NTAny), SelfN}}
    \cup {Bin(op, pp, qq) : op \in {"=", "!="}, pp \in {R1("child", NTAny), R1("descendant", NTAny), R1("ancestor", NTAny), R1("attribute", NTAny)},
                           qq \in {R1("child", NTAny), R1("following-sibling", NTAny), R1("descendant", NTName("a")), SelfN}}
    \cup {Call("not", <<Call("contains", <<pp, Lit("1")>>)>>) : pp \in FnPaths \cup {SelfN}}
    \cup {Bin("=", Call("local-name", <<>>), Lit("a")), Bin("!=", Call("local-name", <<>>), Lit("a")), Call("true", <<>>), Call("false", <<>>),
          Bin("and", Bin("=", Call("local-name", <<>>), Lit("a")), Bin(">", Call("count", <<R1("child", NTAny)>>), NumL(0))),
          Bin("or", Call("contains", <<SelfN, Lit("1")>>), R1("child", NTName("a"))),
          Bin("=", Call("count", <<R1("child", NTAny)>>), Call("count", <<R1("child", NTName("a"))>>))}
PoolPart8 == UNION {HostsOf(<<p>>) : p \in FnPreds}
             \cup UNION {HostsOf(<<p, q>>) : p \in {Bin(">", Call("count", <<R1("child", NTAny)>>), NumL(0)), Call("contains", <<SelfN, Lit("1")>>)},
                                             q \in {R1("child", NTName("a")), Bin("=", Call("local-name", <<>>), Lit("a"))}}
AllPools == PoolSets \o <<PoolPart5, PoolPart6, PoolPart7, PoolPart8>>

NewNodes(d) ==
    UNION { {Node("elem", n, "", "", p, "") : n \in ElemNames} \cup {Node("text", "", "", "", p, v) : v \in TextVals} : p \in Ids(d) }

Init ==
    /\ expr = NoExpr /\ part = 0
    /\ \/ MaxNodes > 1 /\ doc = EmptyDoc /\ grow = TRUE
       \/ UseCat /\ \E i \in CatIds : doc = Catalogue[i] /\ grow = FALSE
AddNode ==
    /\ grow /\ part = 0 /\ expr = NoExpr /\ Len(doc) < MaxNodes
    /\ \E nd \in NewNodes(doc) : CanAdd(doc, nd) /\ doc' = Append(doc, nd)
    /\ UNCHANGED <<grow, part, expr>>
PickPart ==
    /\ part = 0 /\ expr = NoExpr /\ Len(doc) > 1
    /\ \E p \in Parts : part' = p
    /\ UNCHANGED <<doc, grow, expr>>
PickExpr ==
    /\ part > 0 /\ expr = NoExpr
    /\ \E e \in AllPools[part] : expr' = e
    /\ part' = 0 /\ UNCHANGED <<doc, grow>>
Next == AddNode \/ PickPart \/ PickExpr
Spec == Init /\ [][Next]_vars

IsCase == expr # NoExpr
DocCode(d) == [i \in 1 .. Len(d) |-> <<d[i].k, d[i].n, d[i].p, d[i].v, d[i].px, d[i].ns>>]
Runs == LET g == Env(doc) IN [i \in 1 .. Len(doc) |-> RunAll2(expr, g, i)]

\* is the result of e claimed by C02 / C03?  (numeric predicates only FIRST on a child step, or on a parenthesised path)
RECURSIVE ClaimedSteps(_)
ClaimedSteps(steps) ==
    \A i \in 1 .. Len(steps) :
       \A k \in 1 .. Len(steps[i].preds) : Positional(steps[i].preds[k]) /\ ~(steps[i].preds[k].t = "call" /\ steps[i].preds[k].f = "not" /\ ~UsesPos(steps[i].preds[k]))
                                               => (k = 1 /\ steps[i].ax = "child")
\* the recorded finding KF-C02-1 (a function converting a node-set from a REVERSE axis to a string takes the nearest node, not
\* the first in document order) is reproduced by the model; such expressions are emitted for conformance but not claimed
RevAxes == {"ancestor", "ancestor-or-self", "preceding", "preceding-sibling"}
RECURSIVE KF1(_)
KF1(e) == CASE e.t = "call" -> \/ (e.f \in {"contains", "starts-with"} /\ e.args[1].t = "path" /\ e.args[1].steps # <<>> /\ e.args[1].steps[1].ax \in RevAxes)
                               \/ \E i \in 1 .. Len(e.args) : KF1(e.args[i])
         [] e.t = "bin" -> KF1(e.l) \/ KF1(e.r)
         [] e.t = "union" -> KF1(e.l) \/ KF1(e.r)
         [] e.t = "path" -> \E i \in 1 .. Len(e.steps) : \E k \in 1 .. Len(e.steps[i].preds) : KF1(e.steps[i].preds[k])
         [] e.t = "filter" -> KF1(e.e) \/ \E k \in 1 .. Len(e.preds) : KF1(e.preds[k])
         [] OTHER -> FALSE
ClaimedShape(e) == IF e.t = "path" THEN ClaimedSteps(e.steps) ELSE IF e.t = "filter" THEN e.e.t = "path" ELSE TRUE
\* the recorded finding KF-C03-1 (a numeric predicate >= 1 that is no integer is truncated) is reproduced by the model too
FracPred(p) == p.t = "num" /\ p.v.k > 0 /\ ~p.v.neg /\ p.v.n >= 2 ^ p.v.k
RECURSIVE KF3(_)
KF3(e) == CASE e.t = "path" -> \E i \in 1 .. Len(e.steps) : \E k \in 1 .. Len(e.steps[i].preds) : FracPred(e.steps[i].preds[k]) \/ KF3(e.steps[i].preds[k])
            [] e.t = "filter" -> KF3(e.e) \/ \E k \in 1 .. Len(e.preds) : FracPred(e.preds[k]) \/ KF3(e.preds[k])
            [] e.t = "bin" -> KF3(e.l) \/ KF3(e.r)
            [] e.t = "union" -> KF3(e.l) \/ KF3(e.r)
            [] e.t = "call" -> \E i \in 1 .. Len(e.args) : KF3(e.args[i])
            [] OTHER -> FALSE
Claimed(e) == ClaimedShape(e) /\ ~KF1(e) /\ ~KF3(e)

VM2Refines ==
    (IsCase /\ Claimed(expr)) =>
      LET g == Env(doc)  rs == Runs IN
      \A i \in 1 .. Len(doc) : rs[i].done /\ SeqToSet(rs[i].nodes) = EvalSet(expr, g, i)

\* C11 at design level: a union delivers each node once
VM2Once ==
    (IsCase /\ expr.t = "union") =>
      LET rs == Runs IN \A i \in 1 .. Len(doc) : \A a, b \in 1 .. Len(rs[i].nodes) : a # b => rs[i].nodes[a] # rs[i].nodes[b]

\* the same without the exclusion: TLC must REFUTE it (the model reproduces the recorded finding KF-C02-1)
VM2RefinesKF ==
    (IsCase /\ ClaimedShape(expr)) =>
      LET g == Env(doc)  rs == Runs IN
      \A i \in 1 .. Len(doc) : rs[i].done /\ SeqToSet(rs[i].nodes) = EvalSet(expr, g, i)

OpCode(o) == CASE o = "child" -> 1 [] o = "next" -> 2 [] o = "prev" -> 3 [] o = "parent" -> 4 [] o = "root" -> 5
               [] o = "first" -> 6 [] o = "nextattr" -> 7
RECURSIVE Flat(_)
Flat(ops) == IF ops = <<>> THEN <<>> ELSE <<OpCode(Head(ops)[1]), Head(ops)[2], Head(ops)[3]>> \o Flat(Tail(ops))
Emit ==
    IsCase =>
      LET rs == Runs IN
      \A i \in 1 .. Len(doc) :
         CSVWrite("%1$s", <<ToJson([k |-> "vm", d |-> DocCode(doc), e |-> expr, cs |-> <<i>>,
                                    r |-> <<[nodes |-> rs[i].nodes,
                                             ops |-> IF Len(rs[i].ops) > 450 THEN <<0>> ELSE Flat(rs[i].ops)]>>])>>, OutFile)
=============================================================================
