------------------------------- MODULE MC_Expr -------------------------------
(***************************************************************************)
(* Flow A generator: documents x expression pool.  Documents are either    *)
(* enumerated (every well-formed document up to MaxNodes over the label    *)
(* alphabet) or taken from the catalogue; the expression is any member of  *)
(* the pool selected by Family.  Each (document, expression) state is a    *)
(* case; Emit writes what the specification requires from every context.   *)
(***************************************************************************)
EXTENDS XPools, XCatalog, Json, CSV, IOUtils, SequencesExt

CONSTANTS Family, MaxNodes, UseCat, UseVal, CatIds,
          ElemNames, AttrNames, AttrPrefixes, TextVals, WithComment

VARIABLES doc, grow, part, expr
vars == <<doc, grow, part, expr>>

OutFile == IOEnv.VERIF_OUT
NoExpr == [t |-> "none"]

AllAxes == Axes
FwdAxes == Axes \ ReverseAxes

FlatPaths ==
    {Path(FALSE, <<Step("child", nt, <<>>)>>) : nt \in TestsAB}
    \cup {Path(FALSE, <<Step("child", NTAny, <<>>), Step("child", nt, <<>>)>>) : nt \in TestsAB}
    \cup {Path(TRUE, <<DosNode, Step("child", nt, <<>>)>>) : nt \in TestsAB}
    \cup {Path(FALSE, <<Step("descendant", nt, <<>>)>>) : nt \in TestsAB}

(***************************************************************************)
(* The pool of a family is a SEQUENCE of sets (never one big union: TLC's  *)
(* set union is quadratic on large sets of records).  The explorer first   *)
(* picks a component, then a member.                                       *)
(***************************************************************************)
HostAxes5 == {"child", "descendant", "self", "following-sibling", "ancestor"}
PredAxesB == {"child", "ancestor", "following", "preceding", "descendant", "parent"}
HostAxesB == <<"child", "descendant", "following", "preceding-sibling", "ancestor-or-self">>
ArithLeaves == NumLeavesSmall \cup NumLeavesDoc
D2M == {N(2), Dec(1, 1), N(0), Call("count", <<Rel1("child", NTAny)>>), NaNExpr}
OpSeq == <<"+", "-", "*", "div", "mod">>
BinOp(op, X, Y) == {Bin(op, x, y) : x \in X, y \in Y}

PoolSets ==
    CASE Family = "C02a"  -> [i \in 1 .. 12 |-> PoolC02a({SetToSeq(AllAxes)[i]}, TestsA, AllAxes, TestsA)]
      [] Family = "C02a-small" -> [i \in 1 .. 5 |-> PoolC02a({SetToSeq(HostAxes5)[i]}, {NTAny}, AllAxes, TestsA)]
      [] Family = "C02b"  ->
           [i \in 1 .. 5 |-> PoolC02b({HostAxesB[i]}, {NTAny},
                       Combos({Rel1(ax, NTName("a")) : ax \in PredAxesB} \cup {Bin("=", Rel1("child", NTAny), Lit("1"))}))]
           \o [i \in 1 .. 5 |-> PoolC02b({HostAxesB[i]}, {NTAny},
                       Nested({"child", "ancestor", "following-sibling", "descendant"}, {NTAny},
                              Atoms1({"child", "ancestor", "following", "preceding-sibling"}, {NTName("a")})))]
      [] Family = "C02two" -> [i \in 1 .. 4 |-> PoolC02two({SetToSeq({"child", "descendant", "following-sibling", "ancestor"})[i]}, {NTAny},
                                Atoms1({"child", "ancestor", "following", "preceding"}, {NTName("a")}))]
      [] Family = "C02paren" -> <<PoolC02paren(FlatPaths, Atoms1({"child", "ancestor", "following", "preceding-sibling", "parent"}, TestsA))>>
      [] Family = "C02desc2" -> [i \in 1 .. 3 |-> PoolC02desc2({<<"child", "descendant", "following-sibling">>[i]})]
      [] Family = "C02cont" -> [i \in 1 .. 12 |-> PoolC02cont({SetToSeq(AllAxes)[i]}, AllAxes)]
      [] Family = "C02count" -> [i \in 1 .. 3 |-> PoolC02count({<<"child", "descendant", "ancestor-or-self">>[i]})]
      [] Family = "C02countpos" -> [i \in 1 .. 3 |-> PoolC02countpos({<<"child", "descendant", "following-sibling">>[i]})]
      [] Family = "C02merge" -> [i \in 1 .. 3 |-> PoolC02merge({<<"child", "descendant", "self">>[i]})]
      [] Family = "C02paren2" -> <<PoolC02paren2({Path(TRUE, <<DosNode, Step("child", NTAny, <<>>)>>), Rel1("child", NTAny), Rel1("descendant", NTName("a"))},
                                                {Rel1("child", NTAny), Call("not", <<Rel1("child", NTName("a"))>>), Bin("=", SelfDot, Lit("1")),
                                                 Rel1("following-sibling", NTAny), Rel1("ancestor", NTName("a")), Bin("!=", SelfDot, Lit("")),
                                                 Bin("=", Call("local-name", <<>>), Lit("a"))})>>
      [] Family = "C03a"  -> <<PoolC03a(TestsAB, 3)>>
      [] Family = "C03kinds" -> <<PoolC03a({NTNode, NTText, NTComment, NTAny}, 3)>>   \* on documents with text and comment siblings
      [] Family = "C03b"  -> <<PoolC03b(TestsA, 2, {Rel1("child", NTAny), Call("not", <<Rel1("child", NTAny)>>),
                                                    Bin("=", SelfDot, Lit("1")), Rel1("following-sibling", NTName("a")),
                                                    Rel1("ancestor", NTName("a"))})>>
      [] Family = "C03cont" -> [i \in 1 .. 12 |-> PoolC03cont({SetToSeq(AllAxes)[i]})]
      [] Family = "C03nested" -> [i \in 1 .. 4 |-> PoolC03nested({<<"child", "descendant", "following-sibling", "ancestor">>[i]})]
      [] Family = "C03paren" -> <<PoolC03paren(FlatPaths, 4)>>
      [] Family = "C07cmp"  -> PoolC07cmpSets
      [] Family = "C07bool" -> <<PoolC07bool>>
      [] Family = "C07pred" -> [i \in 1 .. Len(PoolC07cmpSets) |-> AsPredicate(PoolC07cmpSets[i])] \o <<AsPredicate(PoolC07bool)>>
      [] Family = "C08d1"   -> <<ArithLeaves, NumUnary(ArithLeaves), PoolC08str(ArithLeaves)>>
                               \o [i \in 1 .. 5 |-> BinOp(OpSeq[i], ArithLeaves, ArithLeaves)]
      [] Family = "C08d2"   -> [i \in 1 .. 5 |-> BinOp(OpSeq[i], NumBinary(NumLeavesSmall, NumLeavesSmall), D2M)]
                               \o [i \in 1 .. 5 |-> BinOp(OpSeq[i], D2M, NumBinary(NumLeavesSmall, NumLeavesSmall))]
                               \o <<NumUnary(NumBinary(NumLeavesSmall, NumLeavesSmall)), NumBinary(NumUnary(NumLeavesSmall), D2M)>>
      [] Family = "C08d2big" -> [i \in 1 .. 5 |-> BinOp(OpSeq[i], NumBinary(ArithLeaves, ArithLeaves), NumLeavesSmall)]
                               \o [i \in 1 .. 5 |-> BinOp(OpSeq[i], NumLeavesSmall, NumBinary(ArithLeaves, ArithLeaves))]
                               \o <<NumUnary(NumBinary(ArithLeaves, ArithLeaves)), NumBinary(NumUnary(ArithLeaves), NumLeavesSmall)>>
      [] Family = "C15fn"   -> [i \in 1 .. Cardinality(AllFunctions) |-> PoolC15fn(SetToSeq(AllFunctions)[i], TypeRepsSmall)]
      [] Family = "C15fnwrap" -> [i \in 1 .. Cardinality(AllFunctions) |-> Wrap15(PoolC15fn(SetToSeq(AllFunctions)[i], TypeRepsSmall)) ]
      [] Family = "C15ops"  -> <<Wrap15(PoolC15ops), Wrap15(PoolC15misc)>>
      [] Family = "C15edges" -> <<PoolC15edges>>
      [] Family = "C11pairs" -> <<PoolC11pairs(ElemNames)>>
      [] Family = "C11pred"  -> <<PoolC11pred(ElemNames)>>
      [] Family = "C11more"  -> <<PoolC11nested(ElemNames), PoolC11seq(ElemNames)>>
      [] Family = "C13wrapMixed" -> [i \in 1 .. 12 |-> PoolC13wrapMixed({SetToSeq(AllAxes)[i]}, TestsA)]
      [] Family = "C13wrap" -> [i \in 1 .. 12 |-> PoolC13wrap({SetToSeq(AllAxes)[i]}, TestsA)
                                                  \cup UNION {Wrappers(Path(ab, <<Step(ax, NTAny, <<>>), Step(SetToSeq(AllAxes)[i], nt, <<>>)>>)) :
                                                              ab \in BOOLEAN, ax \in AllAxes \ {SetToSeq(AllAxes)[i]}, nt \in TestsA}]
      [] Family = "C13wrapPred" -> <<PoolC13wrapPred(Atoms1({"child", "ancestor", "following", "preceding-sibling"}, {NTName("a")}))>>
      [] Family = "C09two"  -> PoolC09twoSets
      [] Family = "C09one"  -> <<PoolC09one, PoolC09ws>>
      [] Family = "C09sub"  -> <<PoolC09sub>>
      [] Family = "C09nest" -> <<PoolC09nest>>

NParts == Len(PoolSets)

NewNodes(d) ==
    UNION { {Node("elem", n, "", "", p, "") : n \in ElemNames}
            \cup {Node("attr", n, px, IF px = "" THEN "" ELSE "urn:" \o px, p, "1") : n \in AttrNames, px \in AttrPrefixes}
            \cup {Node("text", "", "", "", p, v) : v \in TextVals}
            \cup (IF WithComment THEN {Node("comment", "", "", "", p, "k")} ELSE {})
          : p \in Ids(d) }

Init ==
    /\ expr = NoExpr /\ part = 0
    /\ \/ MaxNodes > 1 /\ doc = EmptyDoc /\ grow = TRUE
       \/ UseCat /\ \E i \in CatIds : doc = Catalogue[i] /\ grow = FALSE
       \/ UseVal /\ \E i \in 1 .. Len(ValDocs) : doc = ValDocs[i] /\ grow = FALSE

AddNode ==
    /\ grow /\ part = 0 /\ expr = NoExpr /\ Len(doc) < MaxNodes
    /\ \E nd \in NewNodes(doc) : CanAdd(doc, nd) /\ doc' = Append(doc, nd)
    /\ UNCHANGED <<grow, part, expr>>

PickPart ==
    /\ part = 0 /\ expr = NoExpr /\ Len(doc) > 1
    /\ \E p \in 1 .. NParts : part' = p
    /\ UNCHANGED <<doc, grow, expr>>

PickExpr ==
    /\ part > 0 /\ expr = NoExpr
    /\ \E e \in PoolSets[part] : expr' = e
    /\ part' = 0
    /\ UNCHANGED <<doc, grow>>

Next == AddNode \/ PickPart \/ PickExpr
Spec == Init /\ [][Next]_vars

IsCase == expr # NoExpr

DocCode(d) == [i \in 1 .. Len(d) |-> <<d[i].k, d[i].n, d[i].p, d[i].v, d[i].px, d[i].ns>>]

ValJson(g, v) == IF v.t = "ns" THEN [t |-> "ns", v |-> Asc(g.d, v.v)] ELSE v

Values == LET g == Env(doc) IN [i \in 1 .. Len(doc) |-> Eval(expr, g, Ctx(i))]

AllNodeSets(vs) == \A i \in 1 .. Len(vs) : vs[i].t = "ns"
NoneBad(vs) == \A i \in 1 .. Len(vs) : ~Bad(vs[i])

IsC15 == SubSeq(Family, 1, 3) = "C15"
Emit ==
    IsCase =>
      IF IsC15
      THEN \* classification only: no expected value is computed
           CSVWrite("%1$s", <<ToJson([k |-> "noerr", d |-> DocCode(doc), e |-> expr,
                                      r |-> [i \in 1 .. Len(doc) |-> "any"]])>>, OutFile)
      ELSE
      LET g == Env(doc)
          vs == Values
      IN IF ~NoneBad(vs) THEN TRUE
         ELSE IF AllNodeSets(vs)
         THEN CSVWrite("%1$s", <<ToJson([k |-> "sel-set", d |-> DocCode(doc), e |-> expr,
                                         r |-> [i \in 1 .. Len(doc) |-> Asc(doc, vs[i].v)]])>>, OutFile)
         ELSE CSVWrite("%1$s", <<ToJson([k |-> "eval", d |-> DocCode(doc), e |-> expr,
                                         r |-> [i \in 1 .. Len(doc) |-> ValJson(g, vs[i])]])>>, OutFile)

Sanity == IsCase => WFDoc(doc)
=============================================================================
