------------------------------- MODULE MC_Expr -------------------------------
(***************************************************************************)
(* Flow A generator: documents x expression pool.  Documents are either    *)
(* enumerated (every well-formed document up to MaxNodes over the label    *)
(* alphabet) or taken from the catalogue; the expression is any member of  *)
(* the pool selected by Family.  Each (document, expression) state is a    *)
(* case; Emit writes what the specification requires from every context.   *)
(***************************************************************************)
EXTENDS XPools, XCatalog, Json, CSV, IOUtils, SequencesExt

CONSTANTS Family, MaxNodes, UseCat,
          ElemNames, AttrNames, TextVals, WithComment, Parts

VARIABLES doc, grow, part, expr
vars == <<doc, grow, part, expr>>

OutFile == IOEnv.VERIF_OUT
NoExpr == [t |-> "none"]

AllAxes == Axes
FwdAxes == Axes \ ReverseAxes

FlatPaths ==
    {Path(FALSE, <<Step("child", nt, <<>>)>>) : nt \in TestsAB}
    \cup {Path(FALSE, <<Step("child", NTAny, <<>>), Step("child", nt, <<>>)>>) : nt \in TestsAB}
    \cup {Path(TRUE, <<DosNode, Step("child", nt, <<>>)>>) : nt \in TestsAB}
    \cup {Path(FALSE, <<Step("descendant", nt, <<>>)>>) : nt \in TestsAB}

Pool ==
    CASE Family = "C02a"  -> PoolC02a(AllAxes, TestsA, AllAxes, TestsA)
      [] Family = "C02a-small" -> PoolC02a({"child", "descendant", "self", "following-sibling", "ancestor"}, {NTAny},
                                           AllAxes, TestsA)
      [] Family = "C02b"  -> PoolC02b({"child", "descendant", "following", "preceding-sibling", "ancestor-or-self"}, {NTAny},
                                Combos({Rel1(ax, NTName("a")) : ax \in {"child", "ancestor", "following", "preceding", "descendant", "parent"}}
                                       \cup {Bin("=", Rel1("child", NTAny), Lit("1"))})
                                \cup Nested({"child", "ancestor", "following-sibling", "descendant"}, {NTAny},
                                            Atoms1({"child", "ancestor", "following", "preceding-sibling"}, {NTName("a")})))
      [] Family = "C02two" -> PoolC02two({"child", "descendant", "following-sibling", "ancestor"}, {NTAny},
                                Atoms1({"child", "ancestor", "following", "preceding"}, {NTName("a")}))
      [] Family = "C02paren" -> PoolC02paren(FlatPaths, Atoms1({"child", "ancestor", "following", "preceding-sibling", "parent"}, TestsA))
      [] Family = "C03a"  -> PoolC03a(TestsAB, 3)
      [] Family = "C03b"  -> PoolC03b(TestsA, 2, {Rel1("child", NTAny), Call("not", <<Rel1("child", NTAny)>>),
                                                  Bin("=", SelfDot, Lit("1")), Rel1("following-sibling", NTName("a")),
                                                  Rel1("ancestor", NTName("a"))})
      [] Family = "C03paren" -> PoolC03paren(FlatPaths, 4)

PoolSeq == SetToSeq(Pool)
NPool == Len(PoolSeq)
PartLo(p) == ((p - 1) * NPool) \div Parts + 1
PartHi(p) == (p * NPool) \div Parts

NewNodes(d) ==
    UNION { {Node("elem", n, "", "", p, "") : n \in ElemNames}
            \cup {Node("attr", n, "", "", p, "1") : n \in AttrNames}
            \cup {Node("text", "", "", "", p, v) : v \in TextVals}
            \cup (IF WithComment THEN {Node("comment", "", "", "", p, "k")} ELSE {})
          : p \in Ids(d) }

Init ==
    /\ expr = NoExpr /\ part = 0
    /\ \/ MaxNodes > 1 /\ doc = EmptyDoc /\ grow = TRUE
       \/ UseCat /\ \E i \in 1 .. Len(Catalogue) : doc = Catalogue[i] /\ grow = FALSE

AddNode ==
    /\ grow /\ part = 0 /\ Len(doc) < MaxNodes
    /\ \E nd \in NewNodes(doc) : CanAdd(doc, nd) /\ doc' = Append(doc, nd)
    /\ UNCHANGED <<grow, part, expr>>

PickPart ==
    /\ part = 0 /\ Len(doc) > 1
    /\ \E p \in 1 .. Parts : part' = p
    /\ UNCHANGED <<doc, grow, expr>>

PickExpr ==
    /\ part > 0 /\ expr = NoExpr
    /\ \E i \in PartLo(part) .. PartHi(part) : expr' = PoolSeq[i]
    /\ UNCHANGED <<doc, grow, part>>

Next == AddNode \/ PickPart \/ PickExpr
Spec == Init /\ [][Next]_vars

IsCase == expr # NoExpr

DocCode(d) == [i \in 1 .. Len(d) |-> <<d[i].k, d[i].n, d[i].p, d[i].v, d[i].px, d[i].ns>>]

ValJson(g, v) == IF v.t = "ns" THEN [t |-> "ns", v |-> Asc(g.d, v.v)] ELSE v

Values == LET g == Env(doc) IN [i \in 1 .. Len(doc) |-> Eval(expr, g, Ctx(i))]

AllNodeSets(vs) == \A i \in 1 .. Len(vs) : vs[i].t = "ns"
NoneBad(vs) == \A i \in 1 .. Len(vs) : ~Bad(vs[i])

Emit ==
    IsCase =>
      LET g == Env(doc)
          vs == Values
      IN IF ~NoneBad(vs) THEN TRUE
         ELSE IF AllNodeSets(vs)
         THEN CSVWrite("%1$s", <<ToJson([k |-> "sel-set", d |-> DocCode(doc), e |-> expr,
                                         r |-> [i \in 1 .. Len(doc) |-> Asc(doc, vs[i].v)]])>>, OutFile)
         ELSE CSVWrite("%1$s", <<ToJson([k |-> "eval", d |-> DocCode(doc), e |-> expr,
                                         r |-> [i \in 1 .. Len(doc) |-> ValJson(g, vs[i])]])>>, OutFile)

Sanity == IsCase => WFDoc(doc)
=============================================================================
