----------------------------- MODULE XCacheBatch -----------------------------
(***************************************************************************)
(* C16 conformance.                                                        *)
(*  (1) MC part: enumerates every key sequence up to MaxLen over Keys for   *)
(*      every capacity in Caps (Flow A); the harness runs each on a real    *)
(*      loading cache and records one event per get.                       *)
(*  (2) Validation part: recorded runs (sequential and concurrent) are      *)
(*      checked against AbstractCache -- policy-free, so reset-on-full,     *)
(*      LRU or any other bounded policy is accepted:                        *)
(*        reply      ok iff the key is good; the value is the load of       *)
(*                   exactly the requested key                              *)
(*        no-load    a get that did not call load => the key was stored by  *)
(*                   a get that began before this one ended                 *)
(*        bounded    entries <= capacity (capacity > 0)                     *)
(*        errors     a failed load is never remembered: a bad key is loaded *)
(*                   again by every get                                     *)
(*  (3) the replace() template rewriting "$n is group n".                   *)
(***************************************************************************)
EXTENDS XValue, Json, CSV, IOUtils, SequencesExt

CONSTANTS Keys, BadKeys, Caps, MaxLen, Chunk, Mode    \* Mode: "gen" | "validate"

OutFile == IOEnv.VERIF_OUT
Trace == IF Mode = "validate" THEN ndJsonDeserialize(IOEnv.VERIF_TRACE) ELSE <<>>

VARIABLES ph, l, cap, ks
vars == <<ph, l, cap, ks>>

Init == ph = 0 /\ l = 0 /\ cap = 0 /\ ks = <<>>

\* ---- (1) generation -------------------------------------------------------
GenNext ==
    \/ /\ ph = 0 /\ ph' = 10 /\ \E c \in Caps : cap' = c
       /\ UNCHANGED <<l, ks>>
    \/ /\ ph = 10 /\ Len(ks) < MaxLen /\ \E k \in Keys : ks' = Append(ks, k)
       /\ UNCHANGED <<ph, l, cap>>
EmitSeq == (Mode = "gen" /\ ph = 10 /\ Len(ks) = MaxLen) =>
              CSVWrite("%1$s", <<ToJson([k |-> "cacheseq", cap |-> cap, keys |-> ks])>>, OutFile)

\* ---- (2) validation -------------------------------------------------------
ValNext ==
    \/ /\ ph = 0 /\ ph' = 1
       /\ l' \in {c \in 1 .. Len(Trace) : (c - 1) % Chunk = 0}
       /\ UNCHANGED <<cap, ks>>
    \/ /\ ph = 1 /\ ph' = 2
       /\ l' \in l .. (IF l + Chunk - 1 > Len(Trace) THEN Len(Trace) ELSE l + Chunk - 1)
       /\ UNCHANGED <<cap, ks>>

Next == IF Mode = "gen" THEN GenNext ELSE ValNext
Spec == Init /\ [][Next]_vars

\* one get event: [key, ok, loaded, val, size]
ReplyOK(ev) ==
    IF ev.key \in BadKeys THEN ~ev.ok /\ ev.loaded
    ELSE ev.ok /\ ev.val = ev.key

RECURSIVE SeqFrom(_, _, _, _)
\* sequential run: up = keys stored so far (an upper bound of the content)
SeqFrom(evs, i, up, c) ==
    IF i > Len(evs) THEN <<0, "">>
    ELSE LET ev == evs[i] IN
         IF ~ReplyOK(ev) THEN <<i, "reply is not the load of the requested key">>
         ELSE IF ev.key \notin BadKeys /\ ~ev.loaded /\ ev.key \notin up THEN <<i, "returned without loading a key that was never stored">>
         ELSE IF c > 0 /\ ev.size > c THEN <<i, "more entries than the capacity">>
         ELSE IF ev.size > Cardinality(IF ev.ok THEN up \cup {ev.key} ELSE up) THEN <<i, "more entries than keys ever stored (a failed load was remembered?)">>
         ELSE SeqFrom(evs, i + 1, IF ev.ok THEN up \cup {ev.key} ELSE up, c)

ConcVerdict(run) ==
    LET calls == run.calls
        Bad(i) ==
            LET c == calls[i] IN
            IF ~ReplyOK(c) THEN "reply is not the load of the requested key"
            ELSE IF c.key \notin BadKeys /\ ~c.loaded
                    /\ ~\E j \in 1 .. Len(calls) : j # i /\ calls[j].key = c.key /\ calls[j].loaded /\ calls[j].ok
                                                      /\ calls[j].start < c.end
                 THEN "returned without loading a key no earlier call had stored"
            ELSE ""
        firstBad == IF \E i \in 1 .. Len(calls) : Bad(i) # ""
                    THEN CHOOSE i \in 1 .. Len(calls) : Bad(i) # "" /\ \A j \in 1 .. (i - 1) : Bad(j) = ""
                    ELSE 0
    IN IF firstBad # 0 THEN <<firstBad, Bad(firstBad)>>
       ELSE IF run.cap > 0 /\ \E s \in 1 .. Len(run.samples) : run.samples[s] > run.cap
            THEN <<0, "more entries than the capacity">>
       ELSE <<0, "">>

Verdict(run) ==
    IF run.k = "cacheseq" THEN SeqFrom(run.evs, 1, {}, run.cap)
    ELSE ConcVerdict(run)

Validate ==
    (Mode = "validate" /\ ph = 2) =>
      LET v == Verdict(Trace[l])
      IN IF v[2] = "" THEN TRUE
         ELSE CSVWrite("%1$s", <<ToJson([l |-> l, i |-> v[1], fail |-> v[2]])>>, OutFile)
=============================================================================
