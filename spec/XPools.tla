------------------------------- MODULE XPools -------------------------------
(***************************************************************************)
(* Expression pools: for every property the quantification domain of its   *)
(* statement ("fragment") is written down here as a finite set of ASTs     *)
(* built from the constructors of XSem, parameterised by small alphabets.  *)
(* MC_Expr explores  documents x pool  exhaustively.                       *)
(***************************************************************************)
EXTENDS XSem

\* ---- alphabets ---------------------------------------------------------
TestsAB   == {NTName("a"), NTName("b"), NTAny}
TestsA    == {NTName("a"), NTAny}
TestsAll  == {NTName("a"), NTName("b"), NTAny, NTNode, NTText, NTComment}
SelfDot   == Path(FALSE, <<Step("self", NTNode, <<>>)>>)
DosNode   == Step("descendant-or-self", NTNode, <<>>)

Rel1(ax, nt)  == Path(FALSE, <<Step(ax, nt, <<>>)>>)
N(i) == NumLit(NumInt(i))

\* one-step relative paths used inside predicates
PredPaths(axes, tests) == {Rel1(ax, nt) : ax \in axes, nt \in tests}

(***************************************************************************)
(* C02: boolean predicate atoms over a predicate path pp                   *)
(***************************************************************************)
AtomsOf(pp) ==
    { pp,
      Bin("=", pp, Lit("1")),
      Bin("!=", pp, Lit("1")),
      Bin(">", pp, N(1)),
      Bin("<=", pp, N(1)),
      Call("not", <<pp>>),
      Bin(">", Call("count", <<pp>>), N(1)),
      Bin("=", Call("count", <<pp>>), N(0)),
      Call("contains", <<pp, Lit("1")>>),
      Call("starts-with", <<pp, Lit("x")>>) }

SelfAtoms ==
    { Bin("=", Call("local-name", <<>>), Lit("a")),
      Call("contains", <<SelfDot, Lit("1")>>),
      Call("starts-with", <<SelfDot, Lit("x")>>),
      Bin("=", SelfDot, Lit("1")),
      Bin(">", SelfDot, N(1)) }

Atoms1(axes, tests) == UNION {AtomsOf(pp) : pp \in PredPaths(axes, tests)} \cup SelfAtoms

\* hosts: the step carrying the predicate(s), in three positions
HostForms(st) ==
    { Path(FALSE, <<st>>),                             \*  host[p]
      Path(TRUE, <<DosNode, st>>),                     \*  //host[p]   (unabbreviated: /descendant-or-self::node()/host[p])
      Path(FALSE, <<Step("child", NTAny, <<>>), st>>)  \*  */host[p]
    }

PoolC02a(hostAxes, hostTests, predAxes, predTests) ==
    UNION {HostForms(Step(hax, hnt, <<p>>)) :
             hax \in hostAxes, hnt \in hostTests, p \in Atoms1(predAxes, predTests)}

\* nesting depth 2 and boolean combinations, two predicates per step
Combos(A) ==
    {Bin("and", p, q) : p \in A, q \in A} \cup {Bin("or", p, q) : p \in A, q \in A}
    \cup {Call("not", <<p>>) : p \in A}

Nested(axes, tests, A) ==
    {Path(FALSE, <<Step(ax, nt, <<p>>)>>) : ax \in axes, nt \in tests, p \in A}

PoolC02b(hostAxes, hostTests, A) ==
    UNION {HostForms(Step(hax, hnt, <<p>>)) : hax \in hostAxes, hnt \in hostTests, p \in A}

PoolC02two(hostAxes, hostTests, A) ==
    {Path(FALSE, <<Step(hax, hnt, <<p, q>>)>>) : hax \in hostAxes, hnt \in hostTests, p \in A, q \in A}

\* parenthesised path followed by a boolean predicate:  (path)[p]
PoolC02paren(paths, A) == {Filter(pa, <<p>>, <<>>) : pa \in paths, p \in A}

(***************************************************************************)
(* C03: positional predicates, first on a child-axis step                  *)
(***************************************************************************)
Pos  == Call("position", <<>>)
Last == Call("last", <<>>)
PosAtoms(maxN) ==
    {N(n) : n \in 1 .. maxN}
    \cup {Bin(op, Pos, N(n)) : op \in CmpOps, n \in 1 .. maxN}
    \cup {Bin(op, Pos, Last) : op \in CmpOps}
    \cup {Last}
    \cup {Bin("-", Last, N(k)) : k \in 1 .. 2}
    \cup {Bin("=", Pos, Bin("-", Last, N(k))) : k \in 0 .. 1}

\* child step with a positional first predicate and 0..1 boolean predicates,
\* after: nothing, '/', '//', another child step, a parent step, an ancestor step
ChildPosForms(nt, preds) ==
    LET st == Step("child", nt, preds) IN
    { Path(FALSE, <<st>>),
      Path(TRUE, <<st>>),
      Path(TRUE, <<DosNode, st>>),
      Path(FALSE, <<DosNode, st>>),
      Path(FALSE, <<Step("child", NTAny, <<>>), st>>),
      Path(FALSE, <<Step("parent", NTNode, <<>>), st>>),
      Path(FALSE, <<Step("ancestor", NTAny, <<>>), st>>),
      Path(FALSE, <<st, Step("child", NTAny, <<>>)>>) }

PoolC03a(tests, maxN) ==
    UNION {ChildPosForms(nt, <<p>>) : nt \in tests, p \in PosAtoms(maxN)}
PoolC03b(tests, maxN, B) ==
    UNION {ChildPosForms(nt, <<p, b>>) : nt \in tests, p \in PosAtoms(maxN), b \in B}
\* (flat path)[n]  and  (//name)[n]
PoolC03paren(paths, maxN) == {Filter(pa, <<N(n)>>, <<>>) : pa \in paths, n \in 1 .. maxN}

=============================================================================
