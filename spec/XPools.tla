------------------------------- MODULE XPools -------------------------------
(***************************************************************************)
(* Expression pools: for every property the quantification domain of its   *)
(* statement ("fragment") is written down here as a finite set of ASTs     *)
(* built from the constructors of XSem, parameterised by small alphabets.  *)
(* MC_Expr explores  documents x pool  exhaustively.                       *)
(***************************************************************************)
EXTENDS XSem

\* ---- alphabets ---------------------------------------------------------
TestsAB   == {NTName("a"), NTName("b"), NTAny}
TestsA    == {NTName("a"), NTAny}
TestsAll  == {NTName("a"), NTName("b"), NTAny, NTNode, NTText, NTComment}
SelfDot   == Path(FALSE, <<Step("self", NTNode, <<>>)>>)
DosNode   == Step("descendant-or-self", NTNode, <<>>)

Rel1(ax, nt)  == Path(FALSE, <<Step(ax, nt, <<>>)>>)
Desc(nt)   == Path(TRUE, <<DosNode, Step("child", nt, <<>>)>>)            \* //nt
DescP(nt, preds) == Path(TRUE, <<DosNode, Step("child", nt, preds)>>)   \* //nt[..]

N(i) == NumLit(NumInt(i))
Dec(n, k) == NumLit(Fin(FALSE, n, k))      \* n / 2^k

PosFn  == Call("position", <<>>)
LastFn == Call("last", <<>>)

\* one-step relative paths used inside predicates
PredPaths(axes, tests) == {Rel1(ax, nt) : ax \in axes, nt \in tests}

(***************************************************************************)
(* C02: boolean predicate atoms over a predicate path pp                   *)
(***************************************************************************)
AtomsOf(pp) ==
    { pp,
      Bin("=", pp, Lit("1")),
      Bin("!=", pp, Lit("1")),
      Bin(">", pp, N(1)),
      Bin("<=", pp, N(1)),
      Call("not", <<pp>>),
      Bin(">", Call("count", <<pp>>), N(1)),
      Bin("=", Call("count", <<pp>>), N(0)),
      Call("contains", <<pp, Lit("1")>>),
      Call("starts-with", <<pp, Lit("x")>>),
      \* the literal on the LEFT
      Bin("<", N(1), pp), Bin(">=", N(1), pp), Bin("=", Lit("1"), pp), Bin("!=", Lit("1"), pp),
      Bin("<", N(1), Call("count", <<pp>>)) }

SelfAtoms ==
    { Bin("=", Call("local-name", <<>>), Lit("a")),
      Call("contains", <<SelfDot, Lit("1")>>),
      Call("starts-with", <<SelfDot, Lit("x")>>),
      Bin("=", SelfDot, Lit("1")),
      Bin(">", SelfDot, N(1)),
      Bin("<", N(1), SelfDot) }

Atoms1(axes, tests) == UNION {AtomsOf(pp) : pp \in PredPaths(axes, tests)} \cup SelfAtoms

\* hosts: the step carrying the predicate(s), in three positions
HostForms(st) ==
    { Path(FALSE, <<st>>),                             \*  host[p]
      Path(TRUE, <<DosNode, st>>),                     \*  //host[p]   (unabbreviated: /descendant-or-self::node()/host[p])
      Path(FALSE, <<Step("child", NTAny, <<>>), st>>)  \*  */host[p]
    }

PoolC02a(hostAxes, hostTests, predAxes, predTests) ==
    UNION {HostForms(Step(hax, hnt, <<p>>)) :
             hax \in hostAxes, hnt \in hostTests, p \in Atoms1(predAxes, predTests)}

\* nesting depth 2 and boolean combinations, two predicates per step
Combos(A) ==
    {Bin("and", p, q) : p \in A, q \in A} \cup {Bin("or", p, q) : p \in A, q \in A}
    \cup {Call("not", <<p>>) : p \in A}

Nested(axes, tests, A) ==
    {Path(FALSE, <<Step(ax, nt, <<p>>)>>) : ax \in axes, nt \in tests, p \in A}

PoolC02b(hostAxes, hostTests, A) ==
    UNION {HostForms(Step(hax, hnt, <<p>>)) : hax \in hostAxes, hnt \in hostTests, p \in A}

PoolC02two(hostAxes, hostTests, A) ==
    {Path(FALSE, <<Step(hax, hnt, <<p, q>>)>>) : hax \in hostAxes, hnt \in hostTests, p \in A, q \in A}

\* boolean combinations whose operands are multi-step paths with function-valued / positional nested
\* predicates (the builder's merge rewrite) next to operands that read the context node
MergeOperands ==
    {Path(FALSE, <<Step("child", NTAny, <<>>), Step("child", NTAny, <<p>>)>>) :
        p \in {Call("contains", <<SelfDot, Lit("1")>>), Call("not", <<Rel1("child", NTAny)>>), N(1), LastFn,
                Bin(">", Call("count", <<Rel1("child", NTAny)>>), N(0)), Bin("=", SelfDot, Lit("1"))}}
    \cup {Path(FALSE, <<Step("descendant", NTAny, <<>>), Step("child", NTAny, <<N(1)>>)>>),
          Path(FALSE, <<Step("child", NTAny, <<>>), Step("following-sibling", NTAny, <<Call("not", <<Rel1("child", NTAny)>>)>>)>>)}
ContextOperands == {Rel1("child", NTName("a")), Rel1("child", NTAny), Bin("=", SelfDot, Lit("1")), Rel1("parent", NTAny),
                    Rel1("following-sibling", NTAny), Call("not", <<Rel1("child", NTName("b"))>>)}
PoolC02merge(hostAxes) ==
    UNION {HostForms(Step(hax, NTAny, <<p>>)) : hax \in hostAxes,
             p \in {Bin(op, x, y) : op \in {"and", "or"}, x \in MergeOperands, y \in ContextOperands}
                   \cup {Bin(op, y, x) : op \in {"and", "or"}, x \in MergeOperands, y \in ContextOperands}
                   \cup {Bin("=", x, Lit("1")) : x \in MergeOperands}}

\* predicates that are two-step paths over the axes the builder rewrites together (descendant over
\* descendant, '//' folding): the first match abandons the walk half-way
PredPaths2(axes, tests) ==
    {Path(FALSE, <<Step(a1, t1, <<>>), Step(a2, t2, <<>>)>>) : a1 \in axes, a2 \in axes, t1 \in tests, t2 \in tests}
PoolC02desc2(hostAxes) ==
    UNION {HostForms(Step(hax, NTAny, <<p>>)) : hax \in hostAxes,
             p \in PredPaths2({"descendant", "descendant-or-self", "child", "following-sibling"}, TestsA)
                   \cup {Call("not", <<x>>) : x \in PredPaths2({"descendant", "descendant-or-self", "child"}, TestsA)}
                   \cup {Bin("=", x, Lit("1")) : x \in PredPaths2({"descendant", "descendant-or-self", "child"}, TestsA)}}

\* a predicate-carrying step CONTINUED by a further step (the builder hands its "smart descendant"
\* flag from the continuation through the filter to the host step), also through '//'
ContPreds == {Rel1("ancestor", NTName("a")), Path(FALSE, <<Step("parent", NTAny, <<>>), Step("parent", NTAny, <<>>)>>),
              Call("not", <<Rel1("child", NTAny)>>), Bin("=", SelfDot, Lit("1")), Rel1("following-sibling", NTAny),
              Rel1("descendant", NTName("a")), Bin("=", Call("local-name", <<>>), Lit("a"))}
PoolC02cont(hostAxes, contAxes) ==
    {Path(FALSE, <<Step(hax, hnt, <<p>>), Step(cax, cnt, <<>>)>>) :
        hax \in hostAxes, hnt \in TestsA, cax \in contAxes, cnt \in TestsA, p \in ContPreds}
    \cup {Path(FALSE, <<Step(hax, hnt, <<p>>), DosNode, Step("child", cnt, <<>>)>>) :
        hax \in hostAxes, hnt \in TestsA, cnt \in TestsA, p \in ContPreds}
    \cup {Path(FALSE, <<Step(hax, hnt, <<p, q>>), Step(cax, NTAny, <<>>)>>) :
        hax \in hostAxes, hnt \in TestsA, cax \in {"descendant", "descendant-or-self", "child"}, p \in ContPreds, q \in ContPreds}

\* count() of a two-step path that reaches a node from several inputs (the recorded finding KF-C02-2 lives here)
PoolC02count(hostAxes) ==
    UNION {HostForms(Step(hax, NTAny, <<Bin(op, Call("count", <<pp>>), N(k))>>)) : hax \in hostAxes, op \in {"=", ">", "<"}, k \in 1 .. 3,
             pp \in {Path(FALSE, <<Step("ancestor-or-self", NTNode, <<>>), Step("following", NTAny, <<>>)>>),
                     Path(FALSE, <<Step("child", NTAny, <<>>), Step("parent", NTAny, <<>>)>>),
                     Path(FALSE, <<Step("descendant", NTAny, <<>>), Step("ancestor", NTAny, <<>>)>>),
                     Path(FALSE, <<Step("child", NTAny, <<>>), Step("child", NTAny, <<>>)>>),
                     Path(FALSE, <<Step("child", NTAny, <<>>), Step("following-sibling", NTAny, <<>>)>>)}}

\* count() of a child step that carries a boolean predicate followed by [n]: a boolean predicate of the HOST step whose
\* argument keeps running positions.  The verdict for one candidate must not depend on the candidates tested before it
\* (the engine clones the argument for every call; a clone shared between calls would carry the positions over).
PoolC02countpos(hostAxes) ==
    UNION {HostForms(Step(hax, NTAny, <<Bin(op, Call("count", <<pp>>), N(k))>>)) : hax \in hostAxes, op \in {"=", ">"}, k \in 0 .. 1,
             pp \in {Path(FALSE, <<Step("child", nt, <<bp, N(n)>>)>>) :
                        nt \in {NTAny, NTName("a")}, n \in 1 .. 2,
                        bp \in {Rel1("child", NTAny), Call("not", <<Rel1("child", NTAny)>>), Bin("=", SelfDot, Lit("1"))}}}

\* parenthesised path followed by a boolean predicate:  (path)[p]
PoolC02paren(paths, A) == {Filter(pa, <<p>>, <<>>) : pa \in paths, p \in A}
\* ... followed by several predicates, and by further steps
PoolC02paren2(paths, A) == {Filter(pa, <<p, q>>, <<>>) : pa \in paths, p \in A, q \in A}
                           \cup {Filter(pa, <<p, q>>, <<Step("child", NTAny, <<>>)>>) : pa \in paths, p \in A, q \in A}

(***************************************************************************)
(* C03: positional predicates, first on a child-axis step                  *)
(***************************************************************************)
PosAtoms(maxN) ==
    {N(n) : n \in 1 .. maxN}
    \* numbers that are no position: [x] is position() = x, false for every node
    \cup {N(0), Neg(N(1)), Dec(3, 1), Dec(5, 1), Dec(1, 1), Bin("-", LastFn, Dec(1, 1)), Bin("div", LastFn, N(2)), Bin("div", N(1), N(0))}
    \cup {Bin(op, PosFn, N(n)) : op \in CmpOps, n \in 1 .. maxN}
    \cup {Bin(op, PosFn, LastFn) : op \in CmpOps}
    \cup {LastFn}
    \cup {Bin("-", LastFn, N(k)) : k \in 1 .. 2}
    \cup {Bin("=", PosFn, Bin("-", LastFn, N(k))) : k \in 0 .. 1}

\* child step with a positional first predicate and 0..1 boolean predicates,
\* after: nothing, '/', '//', another child step, a parent step, an ancestor step
ChildPosForms(nt, preds) ==
    LET st == Step("child", nt, preds) IN
    { Path(FALSE, <<st>>),
      Path(TRUE, <<st>>),
      Path(TRUE, <<DosNode, st>>),
      Path(FALSE, <<DosNode, st>>),
      Path(FALSE, <<Step("child", NTAny, <<>>), st>>),
      Path(FALSE, <<Step("parent", NTNode, <<>>), st>>),
      Path(FALSE, <<Step("ancestor", NTAny, <<>>), st>>),
      Path(FALSE, <<st, Step("child", NTAny, <<>>)>>) }

PoolC03a(tests, maxN) ==
    UNION {ChildPosForms(nt, <<p>>) : nt \in tests, p \in PosAtoms(maxN)}
PoolC03b(tests, maxN, B) ==
    UNION {ChildPosForms(nt, <<p, b>>) : nt \in tests, p \in PosAtoms(maxN), b \in B}
\* a positional child step CONTINUED by a step on any axis, by '//', or by another positional child step;
\* also below '//' and below another step
ContPos == {N(1), N(2), LastFn, Bin("=", PosFn, N(2)), Bin("<", PosFn, LastFn), Bin("=", PosFn, Bin("-", LastFn, N(1)))}
PoolC03cont(contAxes) ==
    UNION { LET st == Step("child", nt, <<p>>) IN
            {Path(FALSE, <<st, Step(cax, cnt, <<>>)>>) : cax \in contAxes, cnt \in TestsA}
            \cup {Path(TRUE, <<DosNode, st, Step(cax, NTAny, <<>>)>>) : cax \in contAxes}
            \cup {Path(FALSE, <<Step("child", NTAny, <<>>), st, Step(cax, NTAny, <<>>)>>) : cax \in contAxes}
            \cup {Path(FALSE, <<st, DosNode, Step("child", cnt, <<>>)>>) : cnt \in TestsA}
            \cup {Path(FALSE, <<st, Step("child", NTAny, <<q>>)>>) : q \in ContPos}
            \cup {Path(TRUE, <<DosNode, st, Step("child", NTAny, <<q>>)>>) : q \in ContPos}
          : nt \in TestsA, p \in ContPos }
\* the forms above used as PREDICATES (path existence), i.e. evaluated again for every candidate of a host step:
\*   host[child::t[n]]   host[(flat path)[n]]   host[child::t[last()]]   host[not((path)[n])]
NestedPos ==
    {Path(FALSE, <<Step("child", nt, <<p>>)>>) : nt \in TestsA, p \in ContPos}
    \cup {Filter(pa, <<N(n)>>, <<>>) : n \in 1 .. 3,
             pa \in {Rel1("child", NTAny), Rel1("child", NTName("a")), Rel1("descendant", NTName("a")),
                     Path(FALSE, <<Step("child", NTAny, <<>>), Step("child", NTAny, <<>>)>>)}}
PoolC03nested(hostAxes) ==
    UNION {HostForms(Step(hax, NTAny, <<q>>)) : hax \in hostAxes,
             q \in NestedPos \cup {Call("not", <<x>>) : x \in NestedPos} \cup {Bin("=", x, Lit("1")) : x \in NestedPos}}
\* (flat path)[n]  and  (//name)[n]
PoolC03paren(paths, maxN) == {Filter(pa, <<N(n)>>, <<>>) : pa \in paths, n \in 1 .. maxN}

(***************************************************************************)
(* C07: comparisons and boolean operators, claimed type pairs only         *)
(***************************************************************************)
NaNExpr == Bin("div", N(0), N(0))
InfExpr == Bin("div", N(1), N(0))
NumOperands == {N(0), N(1), N(2), Dec(1, 1), Neg(N(1)), NaNExpr, InfExpr}
StrOperands == {Lit(""), Lit("a"), Lit("1"), Lit(" 1"), Lit("x1"), Lit("2")}
\* flat node-set operands relative to the document element of the value documents
NSOperands ==
    {Rel1("child", NTName(n)) : n \in {"b", "c", "d", "zz"}} \cup {Rel1("child", NTAny), Rel1("attribute", NTName("a")),
     Rel1("attribute", NTAny),
     Path(FALSE, <<Step("child", NTName("e"), <<>>), Step("child", NTAny, <<>>)>>),
     Path(FALSE, <<Step("child", NTName("b"), <<>>), Step("child", NTText, <<>>)>>),
     Path(FALSE, <<Step("child", NTName("e"), <<>>), Step("child", NTAny, <<N(1)>>)>>),
     Path(FALSE, <<Step("child", NTAny, <<>>), Step("child", NTAny, <<LastFn>>)>>)}
BoolOperands == {Call("true", <<>>), Call("false", <<>>)}

PoolC07cmpSets ==
 << {Bin(op, l, r) : op \in CmpOps, l \in NumOperands, r \in NumOperands},
    {Bin(op, l, r) : op \in CmpOps, l \in NSOperands, r \in NumOperands},
    {Bin(op, l, r) : op \in CmpOps, l \in NumOperands, r \in NSOperands},
    {Bin(op, l, r) : op \in EqOps, l \in StrOperands, r \in StrOperands},
    {Bin(op, l, r) : op \in EqOps, l \in NSOperands, r \in StrOperands},
    {Bin(op, l, r) : op \in EqOps, l \in StrOperands, r \in NSOperands},
    {Bin(op, l, r) : op \in EqOps, l \in NSOperands, r \in NSOperands} >>

AnyOperands == {N(0), N(1), NaNExpr, Lit(""), Lit("a"), Rel1("child", NTName("b")), Rel1("child", NTName("zz")),
                Call("true", <<>>), Call("false", <<>>), Bin("=", Rel1("child", NTName("b")), N(1)),
                Bin(">", N(2), N(1))}
\* an operand whose evaluation raises a deliberate argument-type complaint:
\* it must NOT be evaluated when the left operand decides (short-circuit)
Bomb == Call("contains", <<N(1), Lit("x")>>)
PoolC07bool ==
    {Bin(op, l, r) : op \in BoolOps, l \in AnyOperands, r \in AnyOperands}
    \cup {Call("not", <<x>>) : x \in BoolOperands \cup NSOperands
                                   \cup {Bin("=", Rel1("child", NTName("b")), N(1)), Bin("and", Rel1("child", NTAny), Rel1("child", NTName("zz")))}}
    \cup {Call("boolean", <<x>>) : x \in AnyOperands}
    \* non-empty strings are TRUE whatever they spell
    \cup UNION {{Call("boolean", <<x>>), Call("not", <<x>>), Bin("and", x, Call("true", <<>>)), Bin("or", Call("false", <<>>), x),
                  Bin("=", x, Call("true", <<>>)), Bin("!=", Call("false", <<>>), x)}
                 : x \in {Lit("0"), Lit("0.0"), Lit("-0"), Lit(" 0 "), Lit("false"), Lit("NaN"), Lit(" "), Lit("null")}}
    \cup BoolOperands
    \cup {Bin("or", x, Bomb) : x \in {Call("true", <<>>), N(1), Lit("a"), Path(TRUE, <<Step("child", NTAny, <<>>)>>)}}
    \cup {Bin("and", x, Bomb) : x \in {Call("false", <<>>), N(0), Lit(""), Rel1("child", NTName("zz"))}}
    \cup {Bin(o1, Bin(o2, x, y), z) : o1 \in BoolOps, o2 \in BoolOps, x \in BoolOperands, y \in BoolOperands, z \in BoolOperands}

\* the same expressions as predicates of a Select
AsPredicate(P) == {Path(FALSE, <<Step("self", NTNode, <<p>>)>>) : p \in P}
                  \cup {Path(TRUE, <<DosNode, Step("child", NTAny, <<p>>)>>) : p \in P}

(***************************************************************************)
(* C08: arithmetic                                                         *)
(***************************************************************************)
NumLeavesSmall == {N(0), N(1), N(2), N(3), N(7), Dec(1, 1), Dec(1, 2), Dec(3, 1), N(999999), N(1000000)}
NumLeavesDoc ==
    {Call("count", <<p>>) : p \in {Rel1("child", NTName("b")), Rel1("child", NTName("zz")), Rel1("child", NTAny)}}
    \cup {Call("sum", <<p>>) : p \in {Rel1("child", NTName("b")), Rel1("child", NTName("zz"))}}
    \cup {Call("number", <<p>>) : p \in {Rel1("child", NTName("b")), Rel1("child", NTName("c")), Rel1("child", NTName("zz")),
                                          Lit("12"), Lit(" 7 "), Lit("x"), Lit(""), Lit("-0.5"), Lit("1e3"), Lit("+1"), Lit("Inf"),
                                          Lit("0x10"), Lit("1 2"), Lit("."), Lit("5."), Lit(".5"), Lit("-"), Lit("--1")}}
    \cup {Call("number", <<>>)}
    \cup {Call("string-length", <<p>>) : p \in {Rel1("child", NTName("c")), Lit("abc")}}
    \* flat paths with a positional / function-valued predicate on a non-first step (the builder's merge rewrite)
    \cup {Call("count", <<Path(FALSE, <<Step("child", NTAny, <<>>), Step("child", NTAny, <<p>>)>>)>>) :
             p \in {N(1), LastFn, Call("not", <<Rel1("child", NTAny)>>)}}
    \cup {Call("count", <<Path(FALSE, <<Step("child", NTName("e"), <<>>), Step("child", NTName("b"), <<N(1)>>)>>)>>)}
NumUnary(X) == {Neg(x) : x \in X} \cup {Call("floor", <<x>>) : x \in X} \cup {Call("ceiling", <<x>>) : x \in X}
NumBinary(X, Y) == {Bin(op, x, y) : op \in ArithOps, x \in X, y \in Y}

PoolC08d1(L) == L \cup NumUnary(L) \cup NumBinary(L, L)
PoolC08d2(L, M) == NumBinary(NumBinary(L, L), M) \cup NumBinary(M, NumBinary(L, L))
                   \cup NumUnary(NumBinary(L, L)) \cup NumBinary(NumUnary(L), M)
\* string() of numbers: integers, fractions, negative, zero, specials
PoolC08str(L) == {Call("string", <<x>>) : x \in PoolC08d1(L)}

(***************************************************************************)
(* C09: string functions                                                   *)
(***************************************************************************)
StrPool == {"", "a", "ab", "aba", "A b", " a  b ", "\t", "-", "12", "a-b", "B"}
StrLits(S) == {Lit(x) : x \in S}
StrNS == {Rel1("child", NTName("b")), Rel1("child", NTName("zz")), Rel1("child", NTName("d")), Rel1("attribute", NTName("b")),
          SelfDot}
Fun2(f, A, B) == {Call(f, <<x, y>>) : x \in A, y \in B}
Fun1(f, A) == {Call(f, <<x>>) : x \in A}
Fun2Names == <<"contains", "starts-with", "ends-with", "substring-before", "substring-after", "concat">>
PoolC09twoSets == [i \in 1 .. Len(Fun2Names) |-> Fun2(Fun2Names[i], StrLits(StrPool) \cup StrNS, StrLits(StrPool))]
                  \* a node-set as SECOND argument (and in both positions)
                  \o [i \in 1 .. Len(Fun2Names) |-> Fun2(Fun2Names[i], StrLits({"", "a", "1", "x1", "2 "}) \cup StrNS, StrNS)]
                  \o << {Call("translate", <<x, y, z>>) : x \in StrLits({"1x2", "a"}) \cup StrNS, y \in StrNS \cup StrLits({"1"}), z \in StrNS \cup StrLits({"-"})},
                        {Call("string-join", <<x, y>>) : x \in StrNS \cup {Rel1("child", NTAny)}, y \in StrNS} >>
\* tab, line feed, carriage return INSIDE the value (XPath whitespace is #x20 #x9 #xD #xA)
WsStrings == {"a\tb", "a\nb", "a\rb", "\ta \t b\n", "a \tb", "\t", "a\t\tb", "a\n b"}
PoolC09ws == {Call("normalize-space", <<Lit(x)>>) : x \in WsStrings}
             \cup {Call("string-length", <<Call("normalize-space", <<Lit(x)>>)>>) : x \in WsStrings}
             \cup {Call("normalize-space", <<Call("concat", <<Lit(x), Lit(" "), Lit(y)>>)>>) : x \in WsStrings, y \in {"c", "\t"}}
             \cup {Call("translate", <<Lit(x), Lit("\t\n"), Lit("-")>>) : x \in WsStrings}
             \cup {Call("contains", <<Lit(x), Lit("\t")>>) : x \in WsStrings}
PoolC09one ==
    UNION {Fun1(f, StrLits(StrPool) \cup StrNS) : f \in {"string-length", "normalize-space", "lower-case", "string"}}
    \cup {Call("normalize-space", <<>>), Call("string-length", <<>>), Call("string", <<>>)}
    \cup {Call("concat", <<x, y, z>>) : x \in StrLits({"a", ""}), y \in StrNS, z \in StrLits({"b", " "})}
    \cup {Call("translate", <<x, y, z>>) : x \in StrLits({"", "aba", "a-b", "A b"}) \cup {Rel1("child", NTName("d"))},
                                            y \in StrLits({"", "a", "ab", "ba-", "aa"}), z \in StrLits({"", "x", "xy", "xyz"})}
    \cup {Call("string-join", <<p, sep>>) : p \in {Rel1("child", NTName("b")), Rel1("child", NTName("zz")), Rel1("child", NTAny),
                                                     Path(FALSE, <<Step("child", NTAny, <<>>), Step("child", NTText, <<>>)>>),
                                                     \* sequences that START with an empty item, or consist of empty items only
                                                     Rel1("following-sibling", NTAny), Rel1("following-sibling", NTName("c")),
                                                     Rel1("child", NTName("c"))},
                                             sep \in StrLits({"", ",", " - "})}
SubStarts == {Neg(N(3)), Neg(N(1)), Neg(Dec(1, 1)), N(0), Dec(1, 1), N(1), Dec(3, 1), N(2), Dec(5, 1), N(3), N(5), N(6), N(10),
              Neg(Dec(3, 1)), Dec(1, 2)}
SubLens == {Neg(N(1)), N(0), Dec(1, 1), N(1), Dec(3, 1), N(2), Dec(5, 1), N(3), N(10), Dec(1, 2), N(4)}
PoolC09sub ==
    {Call("substring", <<s, a>>) : s \in StrLits({"", "a", "12345"}) \cup {Rel1("child", NTName("d"))}, a \in SubStarts}
    \cup {Call("substring", <<s, a, b>>) : s \in StrLits({"", "a", "12345"}) \cup {Rel1("child", NTName("d"))},
                                            a \in SubStarts, b \in SubLens}
\* compositions of depth 2
PoolC09nest ==
    {Call("concat", <<Call("substring-before", <<x, Lit("b")>>), Call("substring-after", <<x, Lit("b")>>)>>) : x \in StrLits(StrPool)}
    \cup {Call("string-length", <<Call("normalize-space", <<x>>)>>) : x \in StrLits(StrPool) \cup StrNS}
    \cup {Call("contains", <<Call("lower-case", <<x>>), Call("translate", <<y, Lit("AB"), Lit("ab")>>)>>) :
             x \in StrLits(StrPool), y \in StrLits(StrPool)}
    \cup {Call("substring", <<Call("concat", <<x, Lit("xyz")>>), Call("string-length", <<x>>), N(2)>>) : x \in StrLits(StrPool)}
    \cup {Call("starts-with", <<Call("normalize-space", <<x>>), Call("substring", <<x, N(2)>>)>>) : x \in StrLits(StrPool)}

(***************************************************************************)
(* C15: the typed matrix.  One representative expression per static type,  *)
(* every function x every argument tuple of length 0..3 over the           *)
(* representatives, every operator x ordered type pair, variables, every   *)
(* axis name.  No expected value: the oracle is "no Go runtime error".     *)
(***************************************************************************)
Var(n) == [t |-> "var", n |-> n]
TypeReps == {Call("true", <<>>), N(1), NaNExpr, Lit("a"), Lit(""), Rel1("child", NTAny), Rel1("child", NTName("zz")),
             Desc(NTName("b"))}
TypeRepsSmall == {Call("true", <<>>), N(1), Lit("a"), Rel1("child", NTAny), Rel1("child", NTName("zz"))}
AllFunctions == {"last", "position", "count", "local-name", "namespace-uri", "name", "string", "concat", "starts-with",
                 "contains", "ends-with", "substring-before", "substring-after", "substring", "string-length",
                 "normalize-space", "translate", "boolean", "not", "true", "false", "number", "sum", "floor", "ceiling",
                 "round", "lower-case", "string-join", "matches", "replace", "reverse", "id", "lang", "unknown-fn"}
ArgTuples(R) == {<<>>} \cup {<<a>> : a \in R} \cup {<<a, b>> : a \in R, b \in R} \cup {<<a, b, c>> : a \in R, b \in R, c \in R}
PoolC15fn(f, R) == {Call(f, args) : args \in ArgTuples(R)}
AllBinOps == {"or", "and", "=", "!=", "<", "<=", ">", ">=", "+", "-", "*", "div", "mod"}
ZeroOperands == {N(0), Lit("0"), Call("false", <<>>)}
PoolC15ops == {Bin(op, l, r) : op \in AllBinOps, l \in TypeReps \cup ZeroOperands, r \in TypeReps \cup ZeroOperands}
              \cup {Neg(x) : x \in TypeReps}
              \cup {Bin(o1, Bin(o2, N(1), N(2)), N(3)) : o1 \in AllBinOps, o2 \in AllBinOps}
              \cup {Union(l, r) : l \in TypeReps, r \in TypeReps}
              \cup {Bin("=", Call("round", <<Dec(5, 1)>>), N(3)), Bin("+", Call("round", <<N(2)>>), N(1)),
                    Call("string", <<Call("round", <<Dec(5, 1)>>)>>), Call("round", <<NaNExpr>>), Call("round", <<InfExpr>>),
                    Bin("mod", N(1), N(0)), Bin("mod", Dec(1, 1), Dec(1, 2)), Bin("mod", InfExpr, N(2)), Bin("mod", NaNExpr, N(2))}
\* argument VALUES that index into strings / sequences
EdgeNums == {N(0), N(1), N(2), N(5), N(7), N(100), Neg(N(1)), Neg(N(100)), Dec(1, 1), Dec(5, 1), NaNExpr, InfExpr, Neg(InfExpr)}
EdgeStrs == {Lit(""), Lit("a"), Lit("abc"), Lit("12345"), Rel1("child", NTName("zz")), Rel1("child", NTAny)}
PoolC15edges ==
    {Call("substring", <<s, a>>) : s \in EdgeStrs, a \in EdgeNums}
    \cup {Call("substring", <<s, a, b>>) : s \in EdgeStrs, a \in EdgeNums, b \in EdgeNums}
    \cup {Call("translate", <<s, a, b>>) : s \in EdgeStrs, a \in {Lit(""), Lit("a"), Lit("abc"), Lit("aa")}, b \in {Lit(""), Lit("x"), Lit("xyzw")}}
    \cup {Call(f, <<s, a>>) : f \in {"substring-before", "substring-after", "starts-with", "ends-with", "contains"},
                               s \in EdgeStrs, a \in {Lit(""), Lit("a"), Lit("abcd"), Rel1("child", NTName("zz"))}}
    \cup {Filter(Rel1("child", NTAny), <<a>>, <<>>) : a \in EdgeNums} \cup {Path(FALSE, <<Step("child", NTAny, <<a>>)>>) : a \in EdgeNums}
    \* strings that are ALMOST numbers, through every conversion to a number
    \cup UNION {{Call("number", <<s>>), Bin("<", s, N(1)), Bin("=", N(1), s), Bin("+", s, N(1)), Neg(s), Call("floor", <<s>>),
                  Call("substring", <<Lit("abc"), s>>), Call("sum", <<s>>), Path(FALSE, <<Step("child", NTAny, <<Bin(">", SelfDot, s)>>)>>)}
                 : s \in {Lit("-"), Lit(" - "), Lit("."), Lit("-."), Lit("+"), Lit("+1"), Lit("e"), Lit("1e"), Lit("1e3"), Lit("1."), Lit(".5"),
                           Lit("-.5"), Lit("--1"), Lit("1-"), Lit("0x1"), Lit("1 2"), Lit(" "), Lit("Infinity"), Lit("NaN"), Lit("-0")}}
    \* patterns that do not compile, COMPUTED so that Compile cannot reject them; every case is evaluated several times
    \cup UNION {{Call("matches", <<Lit("a"), Call("concat", <<Lit(p), Lit("")>>)>>), Call("replace", <<Lit("a"), Call("concat", <<Lit(p), Lit("")>>), Lit("x")>>),
                  Call("matches", <<Rel1("child", NTAny), Call("string", <<Lit(p)>>)>>)} : p \in {"[", "(", "a{2,1}", "*", "\\"}}
    \cup {Call("string-join", <<Rel1("child", NTName("zz")), Lit(",")>>), Call("sum", <<Rel1("child", NTName("zz"))>>),
          Call("reverse", <<Rel1("child", NTName("zz"))>>), Call("concat", <<Lit(""), Lit("")>>)}
AllAxisNames == Axes \cup {"namespace"}
PoolC15misc ==
    {Bin(op, Var("x"), N(1)) : op \in {"+", "=", "and", "<"}} \cup {Var("x"), Filter(Var("x"), <<>>, <<Step("child", NTAny, <<>>)>>),
     Call("count", <<Var("x")>>), Path(FALSE, <<Step("child", NTAny, <<Var("x")>>)>>)}
    \cup {Path(ab, <<Step(ax, nt, <<>>)>>) : ab \in BOOLEAN, ax \in AllAxisNames, nt \in {NTAny, NTNode, NTName("a")}}
    \cup {Path(FALSE, <<Step(ax, NTAny, <<>>), Step("child", NTAny, <<>>)>>) : ax \in AllAxisNames}
    \cup {Path(FALSE, <<Step("child", NTAny, <<>>), Step(ax, NTAny, <<>>), Step("child", NTAny, <<>>)>>) : ax \in AllAxisNames}
    \cup {Path(FALSE, <<Step("child", NTAny, <<>>), Step(ax, NTNode, <<N(1)>>)>>) : ax \in AllAxisNames}
    \cup {Filter(x, <<N(1)>>, <<>>) : x \in TypeReps} \cup {Filter(x, <<>>, <<Step("child", NTAny, <<>>)>>) : x \in TypeReps}
    \cup {Path(FALSE, <<Step("child", NTAny, <<p>>)>>) : p \in {LastFn, PosFn, Bin("-", LastFn, N(1)), Bin("div", LastFn, N(2)),
                                                               Bin("=", PosFn, Lit("1")), Bin("<", PosFn, Call("true", <<>>)),
                                                               Call("count", <<LastFn>>), NaNExpr, InfExpr, Dec(3, 1), Neg(N(1))}}
\* the same expressions as predicate and as function argument
Wrap15(E) == E \cup {Path(FALSE, <<Step("child", NTAny, <<e>>)>>) : e \in E}
               \cup {Call("string", <<e>>) : e \in E} \cup {Call("boolean", <<e>>) : e \in E}
               \cup {Call("count", <<e>>) : e \in E}

(***************************************************************************)
(* Pools with modes for the API-history properties (C04, C05, C12)         *)
(***************************************************************************)
PE(e, m) == [e |-> e, m |-> m]
TA == NTName("a")
TB == NTName("b")
TC == NTName("c")

\* the engine's stateful constructs (ancestor table, following/preceding
\* cursors, union buffers, reverse, positional filters, merge rewrite,
\* last() on a filter, count/string-join/sum/name, descendant-over-descendant)
PoolC04 ==
  { PE(DescP(TB, <<Rel1("ancestor", TA)>>), "set"),
    PE(Bin("=", Rel1("ancestor", TA), Lit("")), "set"),
    PE(Bin("=", Rel1("ancestor-or-self", NTAny), Lit("1")), "set"),
    PE(Rel1("following", NTAny), "set"),
    PE(Rel1("preceding", NTAny), "set"),
    PE(Rel1("ancestor", NTAny), "set"),
    PE(Union(Desc(TA), Desc(TB)), "once"),
    PE(Union(Rel1("child", NTAny), Rel1("descendant", TB)), "once"),
    PE(Call("reverse", <<Desc(TB)>>), "set"),
    PE(Filter(Desc(TB), <<N(2)>>, <<>>), "set"),
    PE(DescP(TB, <<N(2)>>), "set"),
    PE(DescP(TB, <<Bin("=", PosFn, LastFn)>>), "set"),
    PE(DescP(NTAny, <<LastFn>>), "set"),
    PE(DescP(TB, <<Rel1("child", TC), N(1)>>), "none"),
    PE(Filter(Desc(TC), <<LastFn>>, <<>>), "none"),
    PE(DescP(TB, <<Rel1("attribute", TA), LastFn>>), "none"),
    PE(DescP(NTAny, <<Rel1("child", NTAny), LastFn>>), "none"),
    PE(DescP(TB, <<Bin("!=", SelfDot, Lit("")), LastFn>>), "none"),
    PE(DescP(NTAny, <<Rel1("child", NTAny), Bin("=", PosFn, LastFn)>>), "none"),
    PE(Call("count", <<Desc(TB)>>), "set"),
    PE(Call("string-join", <<Desc(TB), Lit(",")>>), "set"),
    PE(Call("sum", <<Desc(TB)>>), "none"),
    PE(Call("name", <<Desc(TB)>>), "set"),
    PE(Call("count", <<Rel1("following", NTAny)>>), "set"),
    PE(Path(TRUE, <<DosNode, Step("child", TB, <<Rel1("child", TA)>>), Step("child", NTAny, <<>>)>>), "set"),
    PE(Path(FALSE, <<Step("descendant", TA, <<>>), Step("descendant", TB, <<>>)>>), "set"),
    PE(Path(FALSE, <<Step("descendant", NTAny, <<>>), Step("descendant-or-self", TB, <<>>)>>), "set"),
    PE(Path(TRUE, <<DosNode, Step("child", TA, <<>>), DosNode, Step("child", TB, <<>>)>>), "set"),
    PE(SeqStep(Rel1("child", TA), <<Step("child", TB, <<>>), Step("child", TC, <<>>)>>), "once"),
    PE(Bin("=", Desc(TB), N(1)), "set"),
    PE(Bin(">", Desc(TB), Desc(TC)), "none"),
    PE(Bin("=", Desc(TB), Desc(TC)), "set"),
    PE(Call("concat", <<Desc(TA), Desc(TB)>>), "set"),
    PE(DescP(TB, <<Call("not", <<Rel1("following-sibling", TB)>>)>>), "set"),
    PE(DescP(NTAny, <<Bin(">", Call("count", <<Rel1("ancestor", NTAny)>>), N(1))>>), "set"),
    PE(DescP(TA, <<Rel1("descendant", TB), Rel1("following", NTAny)>>), "set"),
    PE(Path(FALSE, <<Step("child", NTAny, <<>>), Step("child", NTAny, <<>>)>>), "seq"),
    PE(Desc(TA), "seq"),
    PE(Path(FALSE, <<Step("child", TA, <<>>), Step("attribute", TA, <<>>)>>), "seq"),
    PE(Path(FALSE, <<Step("self", NTNode, <<>>), DosNode, Step("child", TB, <<N(1)>>)>>), "set"),
    PE(Path(FALSE, <<Step("child", NTAny, <<N(2)>>), Step("child", TB, <<>>)>>), "set"),
    PE(Path(TRUE, <<DosNode, Step("child", TA, <<>>), Step("child", TB, <<N(1)>>)>>), "set"),
    PE(Path(FALSE, <<Step("child", TA, <<>>), Step("child", TB, <<LastFn>>)>>), "set"),
    PE(Bin("and", Desc(TA), Desc(NTName("zz"))), "set"),
    PE(Call("not", <<Desc(TB)>>), "set"),
    PE(Path(FALSE, <<Step("ancestor-or-self", NTAny, <<N(1)>>)>>), "none"),
    PE(Path(FALSE, <<Step("preceding-sibling", NTAny, <<N(1)>>)>>), "none"),
    PE(DescP(TB, <<Bin("=", SelfDot, Lit("1"))>>), "set"),
    PE(Desc(NTText), "set"),
    PE(Path(TRUE, <<DosNode, Step("attribute", TA, <<>>)>>), "set"),
    PE(Filter(Union(Rel1("child", TA), Rel1("child", TB)), <<N(1)>>, <<>>), "none"),
    PE(Path(FALSE, <<Step("following-sibling", NTAny, <<>>), Step("preceding-sibling", NTAny, <<>>)>>), "set"),
    PE(Path(FALSE, <<Step("parent", NTNode, <<>>), Step("child", NTAny, <<>>)>>), "set"),
    PE(Call("string", <<Rel1("following", NTAny)>>), "set"),
    PE(Call("normalize-space", <<>>), "set"),
    PE(Bin("+", Call("count", <<Rel1("preceding", NTAny)>>), Call("count", <<Rel1("following", NTAny)>>)), "set"),
    \* evaluations that ABORT with a deliberate complaint on some context nodes (sum() of a non-numeric string) and
    \* succeed on others: an aborted evaluation must leave nothing behind either (pooled buffers, half-built results)
    PE(Call("concat", <<Lit("n="), Call("string", <<Call("sum", <<Call("string", <<SelfDot>>)>>)>>)>>), "none"),
    PE(Call("concat", <<Call("string", <<Rel1("child", NTAny)>>), Lit("|"), Call("string", <<Call("sum", <<Call("string", <<Rel1("attribute", NTAny)>>)>>)>>)>>), "none"),
    PE(Call("normalize-space", <<Call("concat", <<Lit(" a "), Call("string", <<Call("sum", <<Call("string", <<SelfDot>>)>>)>>)>>)>>), "none"),
    \* functions whose SEVERAL arguments come from the context node (closures that memoise by their arguments)
    PE(Call("translate", <<Lit("abcabc"), Rel1("attribute", NTName("s")), Rel1("attribute", NTName("d"))>>), "set"),
    PE(Call("concat", <<Rel1("attribute", NTName("s")), Rel1("attribute", NTName("d"))>>), "set"),
    PE(Call("contains", <<Rel1("attribute", NTName("s")), Rel1("attribute", NTName("d"))>>), "set"),
    PE(Call("substring-before", <<Lit("abcabc"), Rel1("attribute", NTName("d"))>>), "set"),
    PE(Call("string-join", <<Rel1("attribute", NTAny), Rel1("attribute", NTName("d"))>>), "set"),
    PE(Call("starts-with", <<Call("concat", <<Rel1("attribute", NTName("s")), Rel1("attribute", NTName("d"))>>), Rel1("attribute", NTName("s"))>>), "set") }

\* the same node-set expressions evaluated IN PLACE by an operator (Evaluate runs
\* on the compiled tree itself; an early match abandons the operand half-way)
IsNSMode(pe) == pe.e.t \in {"path", "filter", "union", "seqstep"}
PoolC04ops ==
    UNION { { PE(Bin("=", pe.e, Lit("1")), pe.m), PE(Bin("!=", pe.e, Lit("2")), pe.m),
              PE(Bin("=", pe.e, Lit("2")), pe.m), PE(Bin("!=", pe.e, Lit("")), pe.m), PE(Bin("=", pe.e, Lit("")), pe.m),
              PE(Bin(">", pe.e, N(0)), pe.m), PE(Bin("+", pe.e, N(1)), IF pe.m = "seq" THEN "set" ELSE "none"),
              PE(Bin("or", pe.e, Call("false", <<>>)), IF pe.m = "none" THEN "none" ELSE "set") }
            : pe \in {x \in PoolC04 : IsNSMode(x)} }

\* ... and evaluated as ARGUMENTS of a function call, wrapped in an operator (the engine clones function
\* arguments per call: state of an operator tree inside an argument must not survive the call)
PoolC04fn ==
    UNION { { PE(Call("boolean", <<Bin("=", pe.e, Lit("1"))>>), pe.m), PE(Call("not", <<Bin("=", pe.e, Lit("1"))>>), pe.m),
              PE(Call("string", <<Bin("!=", pe.e, Lit(""))>>), pe.m), PE(Call("not", <<Bin("or", pe.e, Call("false", <<>>))>>), IF pe.m = "none" THEN "none" ELSE "set"),
              PE(Call("concat", <<Call("string", <<Bin("=", pe.e, Lit("2"))>>), Lit("-"), Call("string", <<Bin(">", pe.e, N(0))>>)>>), pe.m),
              PE(Call("boolean", <<Bin(">", Bin("+", Call("count", <<pe.e>>), N(0)), N(1))>>), IF pe.m \in {"seq", "once"} THEN "set" ELSE "none") }
            : pe \in {x \in PoolC04 : IsNSMode(x)} }

\* C12: flat paths (document order, no duplicates) exhaustively, plus
\* non-flat node-set expressions for the protocol relations
FlatAxes == {"child", "attribute", "self"}
FlatSteps == {Step(ax, nt, <<>>) : ax \in FlatAxes, nt \in {TA, TB, NTAny, NTNode, NTText}}
FlatPreds == {<<>>, <<Rel1("child", NTAny)>>, <<N(1)>>, <<N(2)>>, <<LastFn>>, <<Bin("=", SelfDot, Lit("1"))>>,
              <<Bin(">", PosFn, N(1))>>, <<N(2), Rel1("child", NTAny)>>}
PoolC12flat1 == {PE(Path(FALSE, <<s>>), "seq") : s \in FlatSteps}
PoolC12flat2 == {PE(Path(FALSE, <<s1, s2>>), "seq") : s1 \in FlatSteps, s2 \in FlatSteps}
PoolC12flat3 == {PE(Path(FALSE, <<Step("child", NTAny, <<>>), s1, s2>>), "seq") : s1 \in FlatSteps, s2 \in FlatSteps}
PoolC12desc  == {PE(Desc(nt), "seq") : nt \in {TA, TB, NTAny, NTText, NTNode}}
                \cup {PE(Path(FALSE, <<Step("descendant", nt, <<>>)>>), "seq") : nt \in {TA, TB, NTAny, NTNode}}
                \cup {PE(Path(FALSE, <<DosNode, Step("child", nt, <<>>)>>), "seq") : nt \in {TA, TB, NTAny}}
                \cup {PE(Path(ab, <<Step("descendant-or-self", nt, <<>>)>>), "seq") : ab \in BOOLEAN, nt \in {TA, TB, NTAny, NTNode, NTText}}
PoolC12pred  == {PE(Path(FALSE, <<Step("child", nt, p)>>), "seq") : nt \in {TB, NTAny}, p \in FlatPreds}
                \cup {PE(Path(FALSE, <<Step("child", NTAny, <<>>), Step("child", nt, p)>>), "seq") : nt \in {TB, NTAny}, p \in FlatPreds}
PoolC12 == PoolC12flat1 \cup PoolC12flat2 \cup PoolC12desc \cup PoolC12pred
PoolC12big == PoolC12 \cup PoolC12flat3
PoolC13 == PoolC04

(***************************************************************************)
(* C11: unions.  Operands from a pool of paths with overlapping, disjoint  *)
(* and equal results; nested unions; the engine's sequence step p/(a, b).  *)
(***************************************************************************)
UOperands(names) ==
    { Desc(NTAny), Desc(NTNode), Desc(NTText), Desc(NTComment), Path(TRUE, <<DosNode, Step("attribute", NTAny, <<>>)>>),
      Rel1("child", NTAny), Rel1("descendant", NTAny), Rel1("descendant-or-self", NTNode), Rel1("ancestor-or-self", NTAny),
      Rel1("following", NTNode), Rel1("preceding", NTNode), Rel1("attribute", NTAny), SelfDot,
      Path(FALSE, <<Step("child", NTAny, <<>>), Step("child", NTAny, <<>>)>>),
      Path(FALSE, <<Step("child", NTAny, <<>>), Step("child", NTText, <<>>)>>),
      \* operands that deliver the same node several times on their own
      Path(TRUE, <<DosNode, Step("child", NTAny, <<>>), Step("parent", NTNode, <<>>)>>),
      Path(FALSE, <<Step("child", NTAny, <<>>), Step("parent", NTNode, <<>>)>>),
      Path(TRUE, <<DosNode, Step("attribute", NTAny, <<>>), Step("parent", NTNode, <<>>)>>),
      Path(FALSE, <<Step("descendant", NTNode, <<>>), Step("ancestor", NTAny, <<>>)>>) }
    \cup {Rel1("child", NTName(n)) : n \in names} \cup {Desc(NTName(n)) : n \in names}
PoolC11pairs(names) == {Union(l, r) : l \in UOperands(names), r \in UOperands(names)}
PoolC11nested(names) ==
    {Union(Union(l, r), Desc(NTAny)) : l \in {Rel1("child", NTAny), Desc(NTText)}, r \in UOperands(names)}
    \cup {Union(Desc(NTNode), Union(l, r)) : l \in {Rel1("child", NTAny), Desc(NTAny)}, r \in UOperands(names)}
PoolC11seq(names) ==
    {SeqStep(b, <<Step("child", n1, <<>>), Step("child", n2, <<>>)>>) :
        b \in {Rel1("child", NTAny), Desc(NTAny), SelfDot},
        n1 \in {NTName(n) : n \in names} \cup {NTAny, NTText}, n2 \in {NTName(n) : n \in names} \cup {NTAny, NTNode}}
    \cup {SeqStep(Rel1("child", NTAny), <<Step("child", NTAny, <<>>), Step("attribute", NTAny, <<>>), Step("child", NTText, <<>>)>>)}

\* unions inside predicates: the same union object is evaluated again for every candidate
PoolC11pred(names) ==
    LET U == {Union(l, r) : l \in {Rel1("attribute", NTName("zz")), Rel1("child", NTName("zz")), Rel1("child", NTAny), Rel1("attribute", NTAny)},
                            r \in {Rel1("child", NTAny), Rel1("child", NTText), Rel1("attribute", NTAny), Rel1("following-sibling", NTAny),
                                    Rel1("parent", NTAny)} \cup {Rel1("child", NTName(n)) : n \in names}}
    IN UNION {HostForms(Step(hax, NTAny, <<p>>)) : hax \in {"child", "descendant", "following-sibling"},
                p \in U \cup {Bin("=", u, Lit("1")) : u \in U} \cup {Call("not", <<u>>) : u \in U}
                      \cup {Bin(">", Call("count", <<u>>), N(1)) : u \in U}}

(***************************************************************************)
(* C13: wrappers that must preserve the node set / truth value             *)
(***************************************************************************)
WithTruePred(pa) ==
    LET n == Len(pa.steps)
    IN [pa EXCEPT !.steps[n].preds = Append(@, Call("true", <<>>))]
Wrappers(pa) ==
    { WithTruePred(pa), Filter(pa, <<>>, <<>>), Union(pa, pa),
      Call("not", <<Call("not", <<pa>>)>>), Filter(pa, <<Call("true", <<>>)>>, <<>>) }
Paths12(axes, tests) ==
    {Path(ab, <<Step(ax, nt, <<>>)>>) : ab \in BOOLEAN, ax \in axes, nt \in tests}
    \cup {Path(ab, <<Step(ax, nt, <<>>), Step(ax2, nt2, <<>>)>>) : ab \in BOOLEAN, ax \in axes, nt \in tests, ax2 \in axes, nt2 \in tests}
PoolC13wrap(axes, tests) == UNION {Wrappers(pa) : pa \in Paths12(axes, tests)}
\* two steps on DIFFERENT axes (the first from the part's axis, the second from all twelve)
PoolC13wrapMixed(axes, tests) ==
    UNION {Wrappers(Path(ab, <<Step(ax, nt, <<>>), Step(ax2, nt2, <<>>)>>)) : ab \in BOOLEAN, ax \in axes, nt \in tests, ax2 \in Axes \ axes, nt2 \in tests}
PoolC13wrapPred(A) == UNION {Wrappers(Path(FALSE, <<Step("child", NTAny, <<>>), Step(ax, NTAny, <<p>>)>>)) :
                               ax \in {"child", "descendant", "following-sibling", "ancestor"}, p \in A}

=============================================================================
