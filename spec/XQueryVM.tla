------------------------------ MODULE XQueryVM ------------------------------
(***************************************************************************)
(* Implementation-shaped model of the engine's iterator pipeline for       *)
(* predicate-free location paths: what build.go translates a path into     *)
(* and how each query type of query.go walks the document through the      *)
(* NodeNavigator cursor operations (XDoc's cursor model).                  *)
(*                                                                         *)
(*   Build(path)      the query tree: the '//' shortcut (child after       *)
(*                    descendant-or-self::node() becomes one descendant    *)
(*                    query), the SmartDesc flag (a descendant step whose  *)
(*                    consumer is a descendant step becomes the            *)
(*                    "descendant over descendant" query that yields only  *)
(*                    top-most matches)                                    *)
(*   Sel(q, st, ...)  one call of Select: the node delivered (0 = nil),    *)
(*                    the new iteration state, and the cursor movements    *)
(*                    performed, in order, as <<op, from, to>> (to = 0:    *)
(*                    the move failed)                                     *)
(*   RunAll           Select until nil: the delivery sequence + movements  *)
(*                                                                         *)
(* Two uses.  (1) Design-level verification: TLC checks for every small    *)
(* document, context and path that the set RunAll delivers is the          *)
(* denotation of XSem (MC_VM.VMRefines) - the algorithms themselves are    *)
(* model-checked, not only sampled through the code.  (2) Conformance: the *)
(* harness navigator records the movements the REAL engine performs; they  *)
(* must be the movements this model predicts (drift is reported as model   *)
(* drift, never as a property violation).                                  *)
(*                                                                         *)
(* The node identity hash of ancestorQuery is modelled as injective (that  *)
(* is C11's subject); its cursor movements are modelled exactly.           *)
(***************************************************************************)
EXTENDS XSem

\* Named deviations: what the PINNED tree did before the repairs F-C01-1..4.  With the empty set the
\* model is the repaired engine; with a deviation TLC refutes VMRefines (model sensitivity).
CONSTANT Deviations

\* ---- query trees ---------------------------------------------------------
QCtx == [t |-> "ctx"]
QAbs == [t |-> "abs"]
QAxis(kind, flag, nt, ax, in) == [t |-> kind, flag |-> flag, nt |-> nt, ax |-> ax, in |-> in]
\* kind: child attr desc dod anc foll prec parent self ; flag: Self / MatchSelf / Sibling

IsDosNode(s) == s.ax = "descendant-or-self" /\ s.preds = <<>>
                /\ (s.nt.k = "node" \/ "shortcut-any-test" \in Deviations)

\* BuildSteps(steps, n, abs, smart): the query for steps[1..n]; smart = the consumer is a descendant step
RECURSIVE BuildSteps(_, _, _, _)
BuildSteps(steps, n, abs, smart) ==
    IF n = 0 THEN (IF abs THEN QAbs ELSE QCtx)
    ELSE LET s == steps[n] IN
         IF s.ax = "child" /\ n > 1 /\ IsDosNode(steps[n - 1])
         THEN \* '//' shortcut: one descendant query over the grand input (built with SmartDesc)
              QAxis("desc", FALSE, s.nt, s.ax, BuildSteps(steps, n - 2, abs, TRUE))
         ELSE LET in == BuildSteps(steps, n - 1, abs, s.ax \in {"descendant", "descendant-or-self"})
              IN CASE s.ax = "ancestor"           -> QAxis("anc", FALSE, s.nt, s.ax, in)
                   [] s.ax = "ancestor-or-self"   -> QAxis("anc", TRUE, s.nt, s.ax, in)
                   [] s.ax = "attribute"          -> QAxis("attr", FALSE, s.nt, s.ax, in)
                   [] s.ax = "child"              -> QAxis("child", FALSE, s.nt, s.ax, in)
                   [] s.ax = "descendant"         -> QAxis(IF smart THEN "dod" ELSE "desc", FALSE, s.nt, s.ax, in)
                   [] s.ax = "descendant-or-self" -> QAxis(IF smart THEN "dod" ELSE "desc", TRUE, s.nt, s.ax, in)
                   [] s.ax = "following"          -> QAxis("foll", FALSE, s.nt, s.ax, in)
                   [] s.ax = "following-sibling"  -> QAxis("foll", TRUE, s.nt, s.ax, in)
                   [] s.ax = "parent"             -> QAxis("parent", FALSE, s.nt, s.ax, in)
                   [] s.ax = "preceding"          -> QAxis("prec", FALSE, s.nt, s.ax, in)
                   [] s.ax = "preceding-sibling"  -> QAxis("prec", TRUE, s.nt, s.ax, in)
                   [] s.ax = "self"               -> QAxis("self", FALSE, s.nt, s.ax, in)
Build(path) == BuildSteps(path.steps, Len(path.steps), path.abs, FALSE)

\* ---- iteration state -------------------------------------------------------
\* uniform record: active (iterator != nil), node (the iterator's cursor), first, level, count,
\* table (ancestor de-duplication), sub (state of the inner descendant query of following/preceding;
\* subOn = inner query exists), attrPending (following from an attribute), in (state of the input)
NoSub == [active |-> FALSE, node |-> 0, first |-> FALSE, level |-> 0]
RECURSIVE InitSt(_)
InitSt(q) ==
    IF q.t \in {"ctx", "abs"} THEN [count |-> 0]
    ELSE [active |-> FALSE, node |-> 0, first |-> FALSE, level |-> 0, table |-> {}, subOn |-> FALSE, sub |-> NoSub,
          subCount |-> 0, attrPending |-> FALSE, in |-> InitSt(q.in)]

Res(n, st, ops) == [n |-> n, st |-> st, ops |-> ops]
Mv(op, from, to) == <<op, from, to>>
Pred(g, q, n) == TestOK(g, q.ax, q.nt, n)

\* the cursor movements of getHashCode(n): count the preceding siblings, then climb
RECURSIVE PrevRun(_, _), HashClimb(_, _)
PrevRun(d, n) == LET p == MvPrev(d, n) IN <<Mv("prev", n, p)>> \o (IF p = 0 THEN <<>> ELSE PrevRun(d, p))
FirstSib(d, n) == LET p == MvPrev(d, n) IN IF p = 0 THEN n ELSE MvFirst(d, n)
HashClimb(d, n) ==
    LET p == MvParent(d, n) IN
    <<Mv("parent", n, p)>> \o (IF p = 0 THEN <<>> ELSE PrevRun(d, p) \o HashClimb(d, FirstSib(d, p)))
HashOps(d, n) == IF d[n].k = "root" THEN <<>> ELSE PrevRun(d, n) \o HashClimb(d, FirstSib(d, n))

\* ---- the descendant walk (shared by descendantQuery and the inner queries of following/preceding)
\* w = [node, level, first]; returns [n, w, ops]
RECURSIVE DescClimb(_, _, _), DescWalk(_, _, _, _, _)
\* no child: move to the next sibling, climbing while there is none; level 0 = back at the start
DescClimb(d, w, ops) ==
    IF w.level = 0 THEN [ok |-> FALSE, w |-> w, ops |-> ops]
    ELSE LET nx == MvNext(d, w.node) IN
         IF nx # 0 THEN [ok |-> TRUE, w |-> [w EXCEPT !.node = nx], ops |-> Append(ops, Mv("next", w.node, nx))]
         ELSE LET pa == MvParent(d, w.node) IN
              DescClimb(d, [w EXCEPT !.node = IF pa = 0 THEN w.node ELSE pa, !.level = w.level - 1],
                        ops \o <<Mv("next", w.node, 0), Mv("parent", w.node, pa)>>)
DescWalk(g, q, self, w, ops) ==
    IF w.first /\ self /\ Pred(g, q, w.node)
    THEN [n |-> w.node, w |-> [w EXCEPT !.first = FALSE], ops |-> ops]
    ELSE LET w1 == [w EXCEPT !.first = FALSE]
             ch == MvChild(g.d, w1.node)
         IN IF ch # 0
            THEN LET w2 == [w1 EXCEPT !.node = ch, !.level = w1.level + 1]
                     o2 == Append(ops, Mv("child", w1.node, ch))
                 IN IF Pred(g, q, ch) THEN [n |-> ch, w |-> w2, ops |-> o2] ELSE DescWalk(g, q, self, w2, o2)
            ELSE LET c == DescClimb(g.d, w1, Append(ops, Mv("child", w1.node, 0)))
                 IN IF ~c.ok THEN [n |-> 0, w |-> c.w, ops |-> c.ops]
                    ELSE IF Pred(g, q, c.w.node) THEN [n |-> c.w.node, w |-> c.w, ops |-> c.ops]
                    ELSE DescWalk(g, q, self, c.w, c.ops)

\* ---- Select, one case per query type --------------------------------------
RECURSIVE Sel(_, _, _, _), ChildIter(_, _, _, _, _), AttrIter(_, _, _, _), AncIter(_, _, _, _, _),
          SibIter(_, _, _, _, _), DodLoop(_, _, _, _, _, _), DodUp(_, _, _, _), FollLoop(_, _, _, _, _), PrecLoop(_, _, _, _, _),
          FollNextRoot(_, _, _), PrecNextRoot(_, _, _)

\* childQuery's closure: MoveToChild first, then MoveToNext, until the test holds
ChildIter(g, q, node, first, ops) ==
    LET to == IF first THEN MvChild(g.d, node) ELSE MvNext(g.d, node)
        o2 == Append(ops, Mv(IF first THEN "child" ELSE "next", node, to))
    IN IF to = 0 THEN [n |-> 0, node |-> node, ops |-> o2]
       ELSE IF Pred(g, q, to) THEN [n |-> to, node |-> to, ops |-> o2]
       ELSE ChildIter(g, q, to, FALSE, o2)

AttrIter(g, q, node, ops) ==
    LET to == MvNextAttr(g.d, node)
        o2 == Append(ops, Mv("nextattr", node, to))
    IN IF to = 0 THEN [n |-> 0, node |-> node, ops |-> o2]
       ELSE IF Pred(g, q, to) THEN [n |-> to, node |-> to, ops |-> o2]
       ELSE AttrIter(g, q, to, o2)

\* ancestorQuery's closure
AncIter(g, q, node, first, ops) ==
    IF first /\ q.flag /\ Pred(g, q, node) THEN [n |-> node, node |-> node, ops |-> ops]
    ELSE LET pa == MvParent(g.d, node)
             o2 == Append(ops, Mv("parent", node, pa))
         IN IF pa = 0 THEN [n |-> 0, node |-> node, ops |-> o2]
            ELSE IF Pred(g, q, pa) THEN [n |-> pa, node |-> pa, ops |-> o2]
            ELSE AncIter(g, q, pa, FALSE, o2)

\* following-sibling / preceding-sibling closures
SibIter(g, q, node, fwd, ops) ==
    LET to == IF fwd THEN MvNext(g.d, node) ELSE MvPrev(g.d, node)
        o2 == Append(ops, Mv(IF fwd THEN "next" ELSE "prev", node, to))
    IN IF to = 0 THEN [n |-> 0, node |-> node, ops |-> o2]
       ELSE IF Pred(g, q, to) THEN [n |-> to, node |-> to, ops |-> o2]
       ELSE SibIter(g, q, to, fwd, o2)

\* descendantOverDescendantQuery.moveUpUntilNext
DodUp(d, node, level, ops) ==
    LET nx == MvNext(d, node) IN
    IF nx # 0 THEN [ok |-> TRUE, node |-> nx, level |-> level, ops |-> Append(ops, Mv("next", node, nx))]
    ELSE IF level - 1 = 0 THEN [ok |-> FALSE, node |-> node, level |-> 0, ops |-> Append(ops, Mv("next", node, 0))]
    ELSE LET pa == MvParent(d, node)
         IN DodUp(d, IF pa = 0 THEN node ELSE pa, level - 1, ops \o <<Mv("next", node, 0), Mv("parent", node, pa)>>)

\* the inner "for ok := true; ok; ok = moveToFirstChild()" loop: test, else descend to the first child
DodLoop(g, q, st, node, level, ops) ==
    IF Pred(g, q, node) THEN Res(node, [st EXCEPT !.node = node, !.level = level], ops)
    ELSE LET ch == MvChild(g.d, node)
             o2 == Append(ops, Mv("child", node, ch))
         IN IF ch # 0 THEN DodLoop(g, q, st, ch, level + 1, o2)
            ELSE Sel(q, [st EXCEPT !.node = node, !.level = level], g, [c |-> 0, ops |-> o2])

\* following (non-sibling): find the next subtree root to walk
FollNextRoot(d, node, ops) ==
    LET nx == MvNext(d, node) IN
    IF nx # 0 THEN [ok |-> TRUE, node |-> nx, ops |-> Append(ops, Mv("next", node, nx))]
    ELSE LET pa == MvParent(d, node) IN
         IF pa = 0 THEN [ok |-> FALSE, node |-> node, ops |-> ops \o <<Mv("next", node, 0), Mv("parent", node, 0)>>]
         ELSE FollNextRoot(d, pa, ops \o <<Mv("next", node, 0), Mv("parent", node, pa)>>)
PrecNextRoot(d, node, ops) ==
    LET pv == MvPrev(d, node) IN
    IF pv # 0 THEN [ok |-> TRUE, node |-> pv, ops |-> Append(ops, Mv("prev", node, pv))]
    ELSE LET pa == MvParent(d, node) IN
         IF pa = 0 THEN [ok |-> FALSE, node |-> node, ops |-> ops \o <<Mv("prev", node, 0), Mv("parent", node, 0)>>]
         ELSE PrecNextRoot(d, pa, ops \o <<Mv("prev", node, 0), Mv("parent", node, pa)>>)

\* followingQuery's closure (non-sibling): walk subtree after subtree
FollLoop(g, q, st, ctx, ops) ==
    IF ~st.subOn
    THEN IF st.attrPending /\ MvParent(g.d, st.node) # 0
         THEN \* from an attribute: the content of the owner element follows (no self)
              LET pa == MvParent(g.d, st.node)
              IN FollLoop(g, q, [st EXCEPT !.attrPending = FALSE, !.node = pa, !.subOn = TRUE,
                                           !.sub = [active |-> TRUE, node |-> pa, first |-> FALSE, level |-> 0]],
                          ctx, Append(ops, Mv("parent", st.node, pa)))
         ELSE LET r == FollNextRoot(g.d, st.node, ops)
              IN IF ~r.ok THEN [n |-> 0, st |-> st, ops |-> r.ops]
                 ELSE FollLoop(g, q, [st EXCEPT !.node = r.node, !.subOn = TRUE,
                                              !.sub = [active |-> TRUE, node |-> r.node, first |-> TRUE, level |-> 0]], ctx, r.ops)
    ELSE LET w == DescWalk(g, q, TRUE, [node |-> st.sub.node, level |-> st.sub.level, first |-> st.sub.first], ops)
         IN IF w.n # 0 THEN [n |-> w.n, st |-> [st EXCEPT !.sub = [active |-> TRUE, node |-> w.w.node, first |-> w.w.first, level |-> w.w.level]], ops |-> w.ops]
            ELSE FollLoop(g, q, [st EXCEPT !.subOn = FALSE], ctx, w.ops)

PrecLoop(g, q, st, ctx, ops) ==
    IF ~st.subOn
    THEN LET r == PrecNextRoot(g.d, st.node, ops)
         IN IF ~r.ok THEN [n |-> 0, st |-> st, ops |-> r.ops]
            ELSE PrecLoop(g, q, [st EXCEPT !.node = r.node, !.subOn = TRUE,
                                         !.sub = [active |-> TRUE, node |-> r.node, first |-> TRUE, level |-> 0]], ctx, r.ops)
    ELSE LET w == DescWalk(g, q, TRUE, [node |-> st.sub.node, level |-> st.sub.level, first |-> st.sub.first], ops)
         IN IF w.n # 0 THEN [n |-> w.n, st |-> [st EXCEPT !.sub = [active |-> TRUE, node |-> w.w.node, first |-> w.w.first, level |-> w.w.level]], ops |-> w.ops]
            ELSE PrecLoop(g, q, [st EXCEPT !.subOn = FALSE], ctx, w.ops)

\* x = [c |-> context node (0: not needed any more), ops |-> movements so far]
Sel(q, st, g, x) ==
    CASE q.t = "ctx" -> IF st.count > 0 THEN Res(0, st, x.ops) ELSE Res(x.c, [count |-> 1], x.ops)
      [] q.t = "abs" -> IF st.count > 0 THEN Res(0, st, x.ops) ELSE Res(1, [count |-> 1], Append(x.ops, Mv("root", x.c, 1)))
      [] q.t \in {"child", "attr", "anc", "desc", "foll", "prec"} ->
           IF ~st.active
           THEN LET r == Sel(q.in, st.in, g, x)
                IN IF r.n = 0 THEN Res(0, [st EXCEPT !.in = r.st], r.ops)
                   ELSE IF q.t = "attr" /\ g.d[r.n].k = "attr" /\ "attr-of-attr" \notin Deviations
                        THEN Sel(q, [st EXCEPT !.in = r.st], g, [x EXCEPT !.ops = r.ops])     \* an attribute has no attributes
                   ELSE Sel(q, [st EXCEPT !.in = r.st, !.active = TRUE, !.node = r.n, !.first = TRUE, !.level = 0,
                                          !.subOn = FALSE, !.attrPending = (q.t = "foll" /\ ~q.flag /\ g.d[r.n].k = "attr" /\ "foll-attr" \notin Deviations)],
                            g, [x EXCEPT !.ops = r.ops])
           ELSE (CASE q.t = "child" ->
                       LET it == ChildIter(g, q, st.node, st.first, x.ops)
                       IN IF it.n # 0 THEN Res(it.n, [st EXCEPT !.node = it.node, !.first = FALSE], it.ops)
                          ELSE Sel(q, [st EXCEPT !.active = FALSE], g, [x EXCEPT !.ops = it.ops])
                  [] q.t = "attr" ->
                       LET it == AttrIter(g, q, st.node, x.ops)
                       IN IF it.n # 0 THEN Res(it.n, [st EXCEPT !.node = it.node], it.ops)
                          ELSE Sel(q, [st EXCEPT !.active = FALSE], g, [x EXCEPT !.ops = it.ops])
                  [] q.t = "anc" ->
                       LET it == AncIter(g, q, st.node, st.first, x.ops)
                       IN IF it.n = 0 THEN Sel(q, [st EXCEPT !.active = FALSE], g, [x EXCEPT !.ops = it.ops])
                          ELSE LET o2 == it.ops \o HashOps(g.d, it.n)
                               IN IF it.n \in st.table
                                  THEN Sel(q, [st EXCEPT !.node = it.node, !.first = FALSE], g, [x EXCEPT !.ops = o2])
                                  ELSE Res(it.n, [st EXCEPT !.node = it.node, !.first = FALSE, !.table = @ \cup {it.n}], o2)
                  [] q.t = "desc" ->
                       LET w == DescWalk(g, q, q.flag, [node |-> st.node, level |-> st.level, first |-> st.first], x.ops)
                       IN IF w.n # 0 THEN Res(w.n, [st EXCEPT !.node = w.w.node, !.level = w.w.level, !.first = w.w.first], w.ops)
                          ELSE Sel(q, [st EXCEPT !.active = FALSE], g, [x EXCEPT !.ops = w.ops])
                  [] q.t = "foll" ->
                       IF q.flag
                       THEN LET it == SibIter(g, q, st.node, TRUE, x.ops)
                            IN IF it.n # 0 THEN Res(it.n, [st EXCEPT !.node = it.node], it.ops)
                               ELSE Sel(q, [st EXCEPT !.active = FALSE], g, [x EXCEPT !.ops = it.ops])
                       ELSE LET r == FollLoop(g, q, st, x.c, x.ops)
                            IN IF r.n # 0 THEN Res(r.n, r.st, r.ops)
                               ELSE Sel(q, [r.st EXCEPT !.active = FALSE], g, [x EXCEPT !.ops = r.ops])
                  [] q.t = "prec" ->
                       IF q.flag
                       THEN LET it == SibIter(g, q, st.node, FALSE, x.ops)
                            IN IF it.n # 0 THEN Res(it.n, [st EXCEPT !.node = it.node], it.ops)
                               ELSE Sel(q, [st EXCEPT !.active = FALSE], g, [x EXCEPT !.ops = it.ops])
                       ELSE LET r == PrecLoop(g, q, st, x.c, x.ops)
                            IN IF r.n # 0 THEN Res(r.n, r.st, r.ops)
                               ELSE Sel(q, [r.st EXCEPT !.active = FALSE], g, [x EXCEPT !.ops = r.ops]))
      [] q.t = "dod" ->
           IF st.level = 0
           THEN LET r == Sel(q.in, st.in, g, x)
                IN IF r.n = 0 THEN Res(0, [st EXCEPT !.in = r.st], r.ops)
                   ELSE IF q.flag /\ Pred(g, q, r.n) THEN Res(r.n, [st EXCEPT !.in = r.st, !.node = r.n], r.ops)
                   ELSE LET ch == MvChild(g.d, r.n)
                            o2 == Append(r.ops, Mv("child", r.n, ch))
                        IN IF ch = 0 /\ "dod-leaf" \in Deviations THEN DodLoop(g, q, [st EXCEPT !.in = r.st], r.n, 0, o2)
                           ELSE IF ch = 0 THEN Sel(q, [st EXCEPT !.in = r.st, !.node = r.n], g, [x EXCEPT !.ops = o2])
                           ELSE DodLoop(g, q, [st EXCEPT !.in = r.st], ch, 1, o2)
           ELSE LET u == DodUp(g.d, st.node, st.level, x.ops)
                IN IF ~u.ok THEN Sel(q, [st EXCEPT !.level = 0, !.node = u.node], g, [x EXCEPT !.ops = u.ops])
                   ELSE DodLoop(g, q, st, u.node, u.level, u.ops)
      [] q.t = "parent" ->
           LET r == Sel(q.in, st.in, g, x)
           IN IF r.n = 0 THEN Res(0, [st EXCEPT !.in = r.st], r.ops)
              ELSE LET pa == MvParent(g.d, r.n)
                       o2 == Append(r.ops, Mv("parent", r.n, pa))
                   IN IF pa # 0 /\ Pred(g, q, pa) THEN Res(pa, [st EXCEPT !.in = r.st], o2)
                      ELSE Sel(q, [st EXCEPT !.in = r.st], g, [x EXCEPT !.ops = o2])
      [] q.t = "self" ->
           LET r == Sel(q.in, st.in, g, x)
           IN IF r.n = 0 THEN Res(0, [st EXCEPT !.in = r.st], r.ops)
              ELSE IF Pred(g, q, r.n) THEN Res(r.n, [st EXCEPT !.in = r.st], r.ops)
              ELSE Sel(q, [st EXCEPT !.in = r.st], g, [x EXCEPT !.ops = r.ops])

\* Select until nil (fuel bounds a runaway iterator): [nodes, ops, done]
RECURSIVE RunFromVM(_, _, _, _, _, _)
RunFromVM(q, st, g, c, acc, fuel) ==
    LET r == Sel(q, st, g, [c |-> c, ops |-> acc.ops])
    IN IF r.n = 0 THEN [nodes |-> acc.nodes, ops |-> r.ops, done |-> TRUE]
       ELSE IF fuel = 0 THEN [nodes |-> Append(acc.nodes, r.n), ops |-> r.ops, done |-> FALSE]
       ELSE RunFromVM(q, r.st, g, c, [nodes |-> Append(acc.nodes, r.n), ops |-> r.ops], fuel - 1)
RunAll(path, g, c) ==
    LET q == Build(path) IN RunFromVM(q, InitSt(q), g, c, [nodes |-> <<>>, ops |-> <<>>], 40 * Len(g.d))

=============================================================================
