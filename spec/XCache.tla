------------------------------- MODULE XCache -------------------------------
(***************************************************************************)
(* The regexp pattern cache (C16).                                         *)
(*                                                                         *)
(* AbstractCache: a set-valued map from keys to loaded values with a       *)
(* capacity.  get(k) returns exactly Load[k] (a value for good keys, an    *)
(* error for bad keys); afterwards the content is some subset of the old   *)
(* content plus k, never more than Cap entries (Cap = 0: unbounded), never *)
(* a bad key, and every entry maps a key to ITS OWN loaded value.  Any     *)
(* replacement policy (reset-on-full, LRU, ...) satisfies it.              *)
(*                                                                         *)
(* LoadingCacheImpl: the steps of loadingCache.get as the code takes them, *)
(* per goroutine:                                                          *)
(*   RLock; lookup; RUnlock; [hit: return]                                 *)
(*   load (NO lock held); [error: return]                                  *)
(*   Lock; (len >= cap > 0 ? reset to {k} : insert k); Unlock; return      *)
(* each a separate action, so TLC explores the window between the          *)
(* read-locked miss and the write-locked store.                            *)
(***************************************************************************)
EXTENDS Integers, Sequences, FiniteSets, TLC

CONSTANTS Keys, BadKeys, Cap, Procs, MaxGets,
          EvictAt      \* the code evicts when len(m) >= Cap ("ge"); "gt" is the off-by-one mutant

ASSUME BadKeys \subseteq Keys

Load(k) == IF k \in BadKeys THEN "error" ELSE k     \* the value loaded for k is identified with k

VARIABLES m,        \* the map: a function from the cached keys to values
          readers, writer,
          pc, key, found, val, gets, ret
vars == <<m, readers, writer, pc, key, found, val, gets, ret>>

NoRet == [k |-> "", v |-> "", loaded |-> FALSE]

Init ==
    /\ m = <<>> /\ readers = {} /\ writer = {}
    /\ pc = [p \in Procs |-> "idle"] /\ key = [p \in Procs |-> ""] /\ found = [p \in Procs |-> FALSE]
    /\ val = [p \in Procs |-> ""] /\ gets = 0 /\ ret = [p \in Procs |-> NoRet]

Call(p) ==
    /\ pc[p] = "idle" /\ gets < MaxGets
    /\ \E k \in Keys : key' = [key EXCEPT ![p] = k]
    /\ pc' = [pc EXCEPT ![p] = "rlock"] /\ gets' = gets + 1
    /\ UNCHANGED <<m, readers, writer, found, val, ret>>
RLock(p) ==
    /\ pc[p] = "rlock" /\ writer = {}
    /\ readers' = readers \cup {p} /\ pc' = [pc EXCEPT ![p] = "lookup"]
    /\ UNCHANGED <<m, writer, key, found, val, gets, ret>>
Lookup(p) ==
    /\ pc[p] = "lookup"
    /\ found' = [found EXCEPT ![p] = key[p] \in DOMAIN m]
    /\ val' = [val EXCEPT ![p] = IF key[p] \in DOMAIN m THEN m[key[p]] ELSE ""]
    /\ pc' = [pc EXCEPT ![p] = "runlock"]
    /\ UNCHANGED <<m, readers, writer, key, gets, ret>>
RUnlock(p) ==
    /\ pc[p] = "runlock"
    /\ readers' = readers \ {p}
    /\ IF found[p]
       THEN pc' = [pc EXCEPT ![p] = "idle"] /\ ret' = [ret EXCEPT ![p] = [k |-> key[p], v |-> val[p], loaded |-> FALSE]]
       ELSE pc' = [pc EXCEPT ![p] = "load"] /\ UNCHANGED ret
    /\ UNCHANGED <<m, writer, key, found, val, gets>>
DoLoad(p) ==
    /\ pc[p] = "load"
    /\ val' = [val EXCEPT ![p] = Load(key[p])]
    /\ IF key[p] \in BadKeys
       THEN pc' = [pc EXCEPT ![p] = "idle"] /\ ret' = [ret EXCEPT ![p] = [k |-> key[p], v |-> "error", loaded |-> TRUE]]
       ELSE pc' = [pc EXCEPT ![p] = "wlock"] /\ UNCHANGED ret
    /\ UNCHANGED <<m, readers, writer, key, found, gets>>
WLock(p) ==
    /\ pc[p] = "wlock" /\ writer = {} /\ readers = {}
    /\ writer' = {p} /\ pc' = [pc EXCEPT ![p] = "store"]
    /\ UNCHANGED <<m, readers, key, found, val, gets, ret>>
Full == IF EvictAt = "ge" THEN Cardinality(DOMAIN m) >= Cap ELSE Cardinality(DOMAIN m) > Cap
Store(p) ==
    /\ pc[p] = "store"
    /\ m' = IF Cap > 0 /\ Full THEN [k \in {key[p]} |-> val[p]]
            ELSE [k \in DOMAIN m \cup {key[p]} |-> IF k = key[p] THEN val[p] ELSE m[k]]
    /\ pc' = [pc EXCEPT ![p] = "wunlock"]
    /\ UNCHANGED <<readers, writer, key, found, val, gets, ret>>
WUnlock(p) ==
    /\ pc[p] = "wunlock"
    /\ writer' = {} /\ pc' = [pc EXCEPT ![p] = "idle"]
    /\ ret' = [ret EXCEPT ![p] = [k |-> key[p], v |-> val[p], loaded |-> TRUE]]
    /\ UNCHANGED <<m, readers, key, found, val, gets>>

Next == \E p \in Procs : Call(p) \/ RLock(p) \/ Lookup(p) \/ RUnlock(p) \/ DoLoad(p) \/ WLock(p) \/ Store(p) \/ WUnlock(p)
Spec == Init /\ [][Next]_vars

\* ---- properties ----------------------------------------------------------
MutualExclusion == Cardinality(writer) <= 1 /\ (writer # {} => readers = {})
\* the map is only written by the lock holder, only read under a lock
AccessUnderLock ==
    \A p \in Procs : /\ pc[p] \in {"store", "wunlock"} => p \in writer
                     /\ pc[p] \in {"lookup", "runlock"} => p \in readers
CapBound    == Cap > 0 => Cardinality(DOMAIN m) <= Cap
NoBadKey    == DOMAIN m \cap BadKeys = {}
Exact       == \A k \in DOMAIN m : m[k] = Load(k)          \* every entry is the value of ITS key
ReturnsRequested ==                                          \* what a call returns is the load of the key it asked for
    \A p \in Procs : ret[p] # NoRet => ret[p].v = Load(ret[p].k)
BadNeverHit == \A p \in Procs : (ret[p] # NoRet /\ ret[p].k \in BadKeys) => ret[p].loaded

\* refinement of AbstractCache: every change of the content is  m' \subseteq m + the storing call's key
AbstractStep == [][\E p \in Procs : pc[p] = "store" /\ DOMAIN m' \subseteq DOMAIN m \cup {key[p]}]_m
=============================================================================
