------------------------------- MODULE XDoc -------------------------------
(***************************************************************************)
(* The XPath 1.0 data model as antchfx/xpath sees it through the           *)
(* NodeNavigator interface: a document is a sequence of node records in    *)
(* DOCUMENT ORDER; the index of a record is the identity of the node.      *)
(* Attributes follow their element and precede its children.               *)
(*                                                                         *)
(* This module defines                                                     *)
(*   - well-formedness of documents and the builder actions' guards that   *)
(*     enumerate every well-formed document exactly once,                  *)
(*   - the twelve axes (as ordered sequences along the axis direction),    *)
(*   - string-values,                                                      *)
(*   - the cursor model (MoveToChild/Next/Previous/First/Parent/           *)
(*     NextAttribute/Root) that the engine is written against.             *)
(***************************************************************************)
EXTENDS Integers, Sequences, FiniteSets, TLC

Kinds == {"root", "elem", "attr", "text", "comment"}

\* k kind, n local name, px prefix, ns namespace URI, p parent id (0 for the
\* root), v own value (attribute value, text, comment text; "" for elem/root)
Node(k, n, px, ns, p, v) == [k |-> k, n |-> n, px |-> px, ns |-> ns, p |-> p, v |-> v]

RootNode == Node("root", "", "", "", 0, "")
EmptyDoc == <<RootNode>>

Ids(d) == 1 .. Len(d)

IsAttr(d, i) == d[i].k = "attr"
HasKids(d, i) == d[i].k \in {"root", "elem"}

(***************************************************************************)
(* Ancestors, nearest first.                                               *)
(***************************************************************************)
RECURSIVE AncSeq(_, _)
AncSeq(d, i) == IF d[i].p = 0 THEN <<>> ELSE <<d[i].p>> \o AncSeq(d, d[i].p)

AncSet(d, i) == {AncSeq(d, i)[j] : j \in 1 .. Len(AncSeq(d, i))}

\* ascending sequence of the members of a set of node ids (document order)
RECURSIVE AscFrom(_, _, _)
AscFrom(S, lo, hi) ==
    IF lo > hi THEN <<>>
    ELSE IF lo \in S THEN <<lo>> \o AscFrom(S, lo + 1, hi)
         ELSE AscFrom(S, lo + 1, hi)
Asc(d, S) == AscFrom(S, 1, Len(d))

RECURSIVE Rev(_)
Rev(s) == IF s = <<>> THEN <<>> ELSE Rev(Tail(s)) \o <<Head(s)>>

ChildSet(d, i) == {j \in Ids(d) : d[j].p = i /\ d[j].k # "attr"}
AttrSet(d, i)  == {j \in Ids(d) : d[j].p = i /\ d[j].k = "attr"}

\* In a pre-order numbering the subtree of i (its attributes, its descendants and their
\* attributes) is the contiguous range i+1 .. SubtreeEnd(d, i): it ends before the first later
\* node whose parent precedes i.
RECURSIVE SubtreeEndFrom(_, _, _)
SubtreeEndFrom(d, i, j) ==
    IF j > Len(d) THEN Len(d) ELSE IF d[j].p < i THEN j - 1 ELSE SubtreeEndFrom(d, i, j + 1)
SubtreeEnd(d, i) == SubtreeEndFrom(d, i, i + 1)

\* everything below i including the attributes of i and of its descendants
SubtreeSet(d, i) == (i + 1) .. SubtreeEnd(d, i)
\* descendants never include attributes
DescSet(d, i)  == {j \in SubtreeSet(d, i) : d[j].k # "attr"}

SiblingSet(d, i) == IF IsAttr(d, i) \/ d[i].p = 0 THEN {} ELSE ChildSet(d, d[i].p) \ {i}

\* all nodes after i in document order that are not below i (for an attribute: the content of
\* its element comes after it) and are not attributes
FollowingSet(d, i) ==
    {j \in (SubtreeEnd(d, i) + 1) .. Len(d) : d[j].k # "attr"}
PrecedingSet(d, i) ==
    {j \in 1 .. (i - 1) : d[j].k # "attr"} \ AncSet(d, i)

\* the definitions by ancestor sets (the textbook reading); TLC checks on every enumerated
\* document that the range-based definitions above agree with them (DocSanity)
DescSetA(d, i)      == {j \in Ids(d) : j > i /\ d[j].k # "attr" /\ i \in AncSet(d, j)}
FollowingSetA(d, i) == {j \in Ids(d) : j > i /\ d[j].k # "attr" /\ i \notin AncSet(d, j)}
PrecedingSetA(d, i) == {j \in Ids(d) : j < i /\ d[j].k # "attr" /\ j \notin AncSet(d, i)}
DocSanity(d) == \A i \in Ids(d) : /\ DescSet(d, i) = DescSetA(d, i)
                                  /\ FollowingSet(d, i) = FollowingSetA(d, i)
                                  /\ PrecedingSet(d, i) = PrecedingSetA(d, i)

Axes == {"ancestor", "ancestor-or-self", "attribute", "child", "descendant",
         "descendant-or-self", "following", "following-sibling", "parent",
         "preceding", "preceding-sibling", "self"}
ReverseAxes == {"ancestor", "ancestor-or-self", "preceding", "preceding-sibling", "parent"}

AxisSet(d, ax, i) ==
    CASE ax = "ancestor"           -> AncSet(d, i)
      [] ax = "ancestor-or-self"   -> AncSet(d, i) \cup {i}
      [] ax = "attribute"          -> AttrSet(d, i)
      [] ax = "child"              -> ChildSet(d, i)
      [] ax = "descendant"         -> DescSet(d, i)
      [] ax = "descendant-or-self" -> DescSet(d, i) \cup {i}
      [] ax = "following"          -> FollowingSet(d, i)
      [] ax = "following-sibling"  -> {j \in SiblingSet(d, i) : j > i}
      [] ax = "parent"             -> IF d[i].p = 0 THEN {} ELSE {d[i].p}
      [] ax = "preceding"          -> PrecedingSet(d, i)
      [] ax = "preceding-sibling"  -> {j \in SiblingSet(d, i) : j < i}
      [] ax = "self"               -> {i}

\* the axis in PROXIMITY order (document order for forward axes, reverse
\* document order for reverse axes)
AxisSeq(d, ax, i) ==
    IF ax \in ReverseAxes THEN Rev(Asc(d, AxisSet(d, ax, i))) ELSE Asc(d, AxisSet(d, ax, i))

PrincipalKind(ax) == IF ax = "attribute" THEN "attr" ELSE "elem"

(***************************************************************************)
(* String-value (XPath 1.0 section 5).                                     *)
(***************************************************************************)
RECURSIVE ConcatText(_, _)
ConcatText(d, s) ==
    IF s = <<>> THEN "" ELSE d[Head(s)].v \o ConcatText(d, Tail(s))

StringValue(d, i) ==
    IF d[i].k \in {"root", "elem"}
    THEN ConcatText(d, Asc(d, {j \in DescSet(d, i) : d[j].k = "text"}))
    ELSE d[i].v

QName(d, i) == IF d[i].px = "" THEN d[i].n ELSE d[i].px \o ":" \o d[i].n

(***************************************************************************)
(* Well-formedness.                                                        *)
(***************************************************************************)
LastChildOrZero(d, i) ==
    IF ChildSet(d, i) = {} THEN 0 ELSE CHOOSE j \in ChildSet(d, i) : \A k \in ChildSet(d, i) : k <= j

\* the right-most path of the tree: the non-attribute node added last and
\* all its ancestors -- the only nodes that may receive the next node if the
\* numbering is to stay a pre-order.
LastNonAttr(d) == CHOOSE j \in Ids(d) : d[j].k # "attr" /\ \A k \in Ids(d) : (k > j => d[k].k = "attr")
RightPath(d) == {LastNonAttr(d)} \cup AncSet(d, LastNonAttr(d))

WFDoc(d) ==
    /\ Len(d) >= 1
    /\ d[1] = RootNode
    /\ \A i \in 2 .. Len(d) :
         /\ d[i].k \in Kinds \ {"root"}
         /\ d[i].p \in 1 .. (i - 1)
         /\ HasKids(d, d[i].p)
         /\ d[i].k = "attr" => d[d[i].p].k = "elem"
         \* pre-order: every node strictly between a node and its parent is
         \* inside the parent's subtree
         /\ \A j \in (d[i].p + 1) .. (i - 1) : d[i].p \in AncSet(d, j)
         \* attributes come before the children of their element
         /\ d[i].k = "attr" => \A j \in (d[i].p + 1) .. (i - 1) : d[j].k = "attr" /\ d[j].p = d[i].p
         /\ d[i].k \in {"elem", "attr"} => d[i].n # ""
    \* attribute names are unique per element
    /\ \A i, j \in Ids(d) : (i # j /\ d[i].k = "attr" /\ d[j].k = "attr" /\ d[i].p = d[j].p)
                               => <<d[i].px, d[i].n>> # <<d[j].px, d[j].n>>
    \* no two adjacent text siblings
    /\ \A i, j \in Ids(d) : (i < j /\ d[i].k = "text" /\ d[j].k = "text" /\ d[i].p = d[j].p)
                               => \E k \in (i + 1) .. (j - 1) : d[k].p = d[i].p /\ d[k].k # "attr"

(***************************************************************************)
(* Builder: CanAdd(d, nd) is the guard under which appending the node      *)
(* record nd keeps the document well-formed.  Exploring "append any node   *)
(* that CanAdd" from EmptyDoc enumerates every well-formed document exactly *)
(* once (a document is the unique sequence of its own prefixes).           *)
(***************************************************************************)
CanAdd(d, nd) ==
    LET p == nd.p IN
    /\ p \in Ids(d)
    /\ nd.k # "root"
    /\ IF nd.k = "attr"
       THEN /\ d[p].k = "elem"
            /\ \A j \in (p + 1) .. Len(d) : d[j].k = "attr" /\ d[j].p = p
            /\ \A j \in AttrSet(d, p) : <<d[j].px, d[j].n>> # <<nd.px, nd.n>>
       ELSE /\ p \in RightPath(d)
            /\ HasKids(d, p)
            \* (IF rather than \/ : inside an action TLC explores both disjuncts)
            /\ IF nd.k # "text" THEN TRUE
               ELSE IF LastChildOrZero(d, p) = 0 THEN TRUE
               ELSE d[LastChildOrZero(d, p)].k # "text"

Append1(d, nd) == Append(d, nd)

(***************************************************************************)
(* Cursor model: the NodeNavigator interface as functions on (doc, node).  *)
(* 0 means "the move failed; the cursor did not move".                     *)
(***************************************************************************)
MvChild(d, i) ==
    IF ChildSet(d, i) = {} THEN 0 ELSE CHOOSE j \in ChildSet(d, i) : \A k \in ChildSet(d, i) : j <= k
MvNext(d, i) ==
    LET S == {j \in SiblingSet(d, i) : j > i}
    IN IF S = {} THEN 0 ELSE CHOOSE j \in S : \A k \in S : j <= k
MvPrev(d, i) ==
    LET S == {j \in SiblingSet(d, i) : j < i}
    IN IF S = {} THEN 0 ELSE CHOOSE j \in S : \A k \in S : j >= k
MvParent(d, i) == d[i].p
MvRoot(d, i) == 1
MvFirst(d, i) ==
    LET S == {j \in SiblingSet(d, i) : j < i}
    IN IF S = {} THEN 0 ELSE CHOOSE j \in S : \A k \in S : j <= k
\* from an element: its first attribute; from an attribute: the next
\* attribute of the same element
MvNextAttr(d, i) ==
    LET S == IF IsAttr(d, i) THEN {j \in AttrSet(d, d[i].p) : j > i}
             ELSE AttrSet(d, i)
    IN IF S = {} THEN 0 ELSE CHOOSE j \in S : \A k \in S : j <= k

NavOps == {"child", "next", "prev", "parent", "root", "first", "nextattr"}
NavMove(d, op, i) ==
    CASE op = "child"    -> MvChild(d, i)
      [] op = "next"     -> MvNext(d, i)
      [] op = "prev"     -> MvPrev(d, i)
      [] op = "parent"   -> MvParent(d, i)
      [] op = "root"     -> MvRoot(d, i)
      [] op = "first"    -> MvFirst(d, i)
      [] op = "nextattr" -> MvNextAttr(d, i)

(***************************************************************************)
(* Compact constructors for hand-shaped catalogue documents:               *)
(* Mk(<< <<kind, name, parent, value>>, ... >>) prepends the root.         *)
(***************************************************************************)
MkNode(t) == Node(t[1], t[2], "", "", t[3], t[4])
Mk(ts) == <<RootNode>> \o [i \in 1 .. Len(ts) |-> MkNode(ts[i])]

=============================================================================
