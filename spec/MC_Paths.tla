------------------------------ MODULE MC_Paths ------------------------------
(***************************************************************************)
(* Flow A generator for location paths (C01, and the path pool of C12/C13).*)
(* Environment actions build a document node by node (every well-formed    *)
(* document up to MaxNodes over the label alphabet, exactly once) or pick  *)
(* a catalogue document, then build a location path step by step.  Every   *)
(* state with a non-empty path is a case: the invariant Emit writes the    *)
(* document, the path and the result REQUIRED BY THE SPECIFICATION from    *)
(* every context node.                                                     *)
(***************************************************************************)
EXTENDS XSem, XCatalog, Json, CSV, IOUtils

CONSTANTS MaxNodes,      \* number of nodes incl. the root
          MaxSteps,
          CatSteps,      \* path length on catalogue documents (0 = no catalogue)
          ElemNames, AttrNames, TextVals, WithComment,
          StepAxes, TestKinds, TestNames

VARIABLES doc, grow, path
vars == <<doc, grow, path>>

OutFile == IOEnv.VERIF_OUT

NewNodes(d) ==
    UNION { {Node("elem", n, "", "", p, "") : n \in ElemNames}
            \cup {Node("attr", n, "", "", p, "1") : n \in AttrNames}
            \cup {Node("text", "", "", "", p, v) : v \in TextVals}
            \cup (IF WithComment THEN {Node("comment", "", "", "", p, "k")} ELSE {})
          : p \in Ids(d) }

Tests == {NT(k, "", "") : k \in TestKinds} \cup {NTName(n) : n \in TestNames}
StepAlphabet == {Step(ax, nt, <<>>) : ax \in StepAxes, nt \in Tests}

Init ==
    /\ path = Path(FALSE, <<>>)
    /\ \/ doc = EmptyDoc /\ grow = TRUE
       \/ CatSteps > 0 /\ \E i \in 1 .. Len(Catalogue) : doc = Catalogue[i] /\ grow = FALSE

AddNode ==
    /\ grow /\ path = Path(FALSE, <<>>) /\ Len(doc) < MaxNodes
    /\ \E nd \in NewNodes(doc) : CanAdd(doc, nd) /\ doc' = Append(doc, nd)
    /\ UNCHANGED <<grow, path>>

SetAbs ==
    /\ path = Path(FALSE, <<>>) /\ Len(doc) > 1
    /\ path' = Path(TRUE, <<>>)
    /\ UNCHANGED <<doc, grow>>

AddStep ==
    /\ Len(doc) > 1
    /\ Len(path.steps) < (IF grow THEN MaxSteps ELSE CatSteps)
    /\ \E st \in StepAlphabet : path' = [path EXCEPT !.steps = Append(@, st)]
    /\ UNCHANGED <<doc, grow>>

Next == AddNode \/ SetAbs \/ AddStep
Spec == Init /\ [][Next]_vars

IsCase == path.abs \/ path.steps # <<>>

DocCode(d) == [i \in 1 .. Len(d) |-> <<d[i].k, d[i].n, d[i].p, d[i].v, d[i].px, d[i].ns>>]

Expected == LET g == Env(doc) IN [i \in 1 .. Len(doc) |-> EvalDocOrder(path, g, i)]

Emit ==
    IsCase => CSVWrite("%1$s", <<ToJson([d |-> DocCode(doc), e |-> path, r |-> Expected])>>, OutFile)

\* spec sanity (guards against a wrong specification): checked on every case
Sanity ==
    IsCase =>
      LET g == Env(doc) IN
      /\ WFDoc(doc)
      /\ (path.steps = <<>> => DocSanity(doc))
      \* absolute paths ignore the context
      /\ path.abs => \A i \in Ids(doc) : EvalSet(path, g, i) = EvalSet(path, g, 1)
=============================================================================
