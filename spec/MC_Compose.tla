----------------------------- MODULE MC_Compose -----------------------------
(***************************************************************************)
(* C13: a relative path evaluated at node n selects the same nodes as the  *)
(* absolute path that first ADDRESSES n and then continues with it, and an *)
(* absolute path selects the same nodes from every start node.             *)
(*                                                                         *)
(* Addr(d, n) is the sequence of steps that selects exactly n from the     *)
(* root: child::*[k] / text()[k] / comment()[k] per ancestor level, and    *)
(* attribute::name for an attribute.  The case emitted for (document, n,   *)
(* relative path p) is the ABSOLUTE expression  /Addr(n)/p  whose required *)
(* result from every start node is the denotation of p at n.               *)
(***************************************************************************)
EXTENDS XPools, XCatalog, Json, CSV, IOUtils, SequencesExt

CONSTANTS MaxNodes, UseCat, CatIds, ElemNames, AttrNames, TextVals, WithComment, RelAxes, PredMode

VARIABLES doc, grow, node, rel
vars == <<doc, grow, node, rel>>
OutFile == IOEnv.VERIF_OUT
NoExpr == [t |-> "none"]

\* position of i among the siblings of the same kind class (elements / text / comment)
KindClass(d, i) == d[i].k
PosAmong(d, i) == Cardinality({j \in ChildSet(d, d[i].p) : j <= i /\ d[j].k = d[i].k})

AddrStep(d, i) ==
    CASE d[i].k = "elem"    -> Step("child", NTAny, <<N(PosAmong(d, i))>>)
      [] d[i].k = "text"    -> Step("child", NTText, <<N(PosAmong(d, i))>>)
      [] d[i].k = "comment" -> Step("child", NTComment, <<N(PosAmong(d, i))>>)
      [] d[i].k = "attr"    -> Step("attribute", NTName(d[i].n), <<>>)

RECURSIVE Addr(_, _)
Addr(d, i) == IF d[i].p = 0 THEN <<>> ELSE Addr(d, d[i].p) \o <<AddrStep(d, i)>>

RelPaths ==
    {Path(FALSE, <<Step(ax, nt, <<>>)>>) : ax \in RelAxes, nt \in TestsA}
    \cup {Path(FALSE, <<Step(ax, nt, <<>>), Step(ax2, NTAny, <<>>)>>) : ax \in RelAxes, nt \in TestsA, ax2 \in RelAxes}
    \cup (IF PredMode
          THEN {Path(FALSE, <<Step(ax, NTAny, <<p>>)>>) : ax \in RelAxes,
                   p \in {Rel1("child", NTAny), Rel1("ancestor", NTName("a")), Bin("=", SelfDot, Lit("1")),
                          Call("not", <<Rel1("following-sibling", NTAny)>>)}}
          ELSE {})

NewNodes(d) ==
    UNION { {Node("elem", n, "", "", p, "") : n \in ElemNames}
            \cup {Node("attr", n, "", "", p, "1") : n \in AttrNames}
            \cup {Node("text", "", "", "", p, v) : v \in TextVals}
            \cup (IF WithComment THEN {Node("comment", "", "", "", p, "k")} ELSE {})
          : p \in Ids(d) }

Init ==
    /\ node = 0 /\ rel = NoExpr
    /\ \/ MaxNodes > 1 /\ doc = EmptyDoc /\ grow = TRUE
       \/ UseCat /\ \E i \in CatIds : doc = Catalogue[i] /\ grow = FALSE

AddNode ==
    /\ grow /\ node = 0 /\ Len(doc) < MaxNodes
    /\ \E nd \in NewNodes(doc) : CanAdd(doc, nd) /\ doc' = Append(doc, nd)
    /\ UNCHANGED <<grow, node, rel>>
PickNode ==
    /\ node = 0 /\ Len(doc) > 1
    /\ \E n \in Ids(doc) : node' = n
    /\ UNCHANGED <<doc, grow, rel>>
PickRel ==
    /\ node > 0 /\ rel = NoExpr
    /\ \E p \in RelPaths : rel' = p
    /\ UNCHANGED <<doc, grow, node>>
Next == AddNode \/ PickNode \/ PickRel
Spec == Init /\ [][Next]_vars

IsCase == rel # NoExpr
Composed == Path(TRUE, Addr(doc, node) \o rel.steps)
DocCode(d) == [i \in 1 .. Len(d) |-> <<d[i].k, d[i].n, d[i].p, d[i].v, d[i].px, d[i].ns>>]

Emit ==
    IsCase =>
      LET g == Env(doc)
          want == Asc(doc, EvalSet(rel, g, node))
      IN CSVWrite("%1$s", <<ToJson([k |-> "sel-set", d |-> DocCode(doc), e |-> Composed,
                                    r |-> [i \in 1 .. Len(doc) |-> want]])>>, OutFile)

\* the identity is a theorem of the specification: checked on every case
Sanity ==
    IsCase =>
      LET g == Env(doc) IN
      /\ EvalSet(Path(TRUE, Addr(doc, node)), g, 1) = {node}
      /\ \A i \in Ids(doc) : EvalSet(Composed, g, i) = EvalSet(rel, g, node)
=============================================================================
