------------------------------ MODULE XSyntax ------------------------------
(***************************************************************************)
(* Concrete syntax of XPath 1.0 (plus the engine's documented extension    *)
(*     Step ::= '(' Step (',' Step)* ')'                                   *)
(* after a slash): tokens, the lexical adjacency rule, a REFERENCE PARSER  *)
(* from token strings to the abstract syntax of XSem, and the rendering    *)
(* of an abstract syntax tree in the shape of the engine's parse tree      *)
(* (what the verif-tagged hook VerifParse prints).                         *)
(*                                                                         *)
(* A token is a record [k |-> kind, s |-> lexeme]:                         *)
(*   "name"  NCName / QName / prefix:*   (also and or div mod, node type   *)
(*           names, function names, axis names: the PARSER decides by      *)
(*           position, as XPath 1.0 section 3.7 prescribes)                *)
(*   "num"   Number      "lit"  Literal incl. its quotes                   *)
(*   "sym"   / // | + - = != < <= > >= * ( ) [ ] , @ :: . .. $             *)
(*   "bad"   a lexeme that is not a token (unclosed literal, "a:" ...)     *)
(***************************************************************************)
EXTENDS XSem

Tok(k, s) == [k |-> k, s |-> s]
TName(s) == Tok("name", s)
TNum(s)  == Tok("num", s)
TLit(s)  == Tok("lit", s)
TSym(s)  == Tok("sym", s)
TBad(s)  == Tok("bad", s)

IsSym(t, s) == t.k = "sym" /\ t.s = s
IsNameTok(t, s) == t.k = "name" /\ t.s = s

(***************************************************************************)
(* Lexical adjacency: TRUE iff the two tokens would merge (or be scanned   *)
(* differently) under XPath's longest-match rule when written without      *)
(* whitespace between them.  Whitespace is optional exactly where this is  *)
(* FALSE.                                                                  *)
(***************************************************************************)
FirstCh(t) == Ch(t.s, 1)
NeedsSep(t1, t2) ==
    \/ t1.k \in {"name", "num"} /\ t2.k = "name" /\ t1.k = "name"          \* a b, a div
    \/ t1.k = "name" /\ t2.k = "num"                                         \* a 1   (a1 is a name)
    \/ t1.k = "num"  /\ t2.k = "num"                                         \* 1 2, 1 .5
    \/ t1.k = "name" /\ t2.k = "sym" /\ FirstCh(t2) \in {"-", "."}          \* a -b (a-b is a name), a .
    \/ t1.k = "num"  /\ t2.k = "sym" /\ FirstCh(t2) = "."                    \* 1 .
    \/ t1.k = "sym" /\ t1.s \in {".", ".."} /\ t2.k = "sym" /\ FirstCh(t2) = "."
    \/ t1.k = "sym" /\ t1.s = "." /\ t2.k = "num"                            \* . 5
    \/ t1.k = "sym" /\ t1.s \in {"/"} /\ t2.k = "sym" /\ FirstCh(t2) = "/"
    \/ t1.k = "sym" /\ t1.s \in {"<", ">", "!"} /\ t2.k = "sym" /\ FirstCh(t2) = "="
    \/ (t1.k = "sym" /\ t1.s = ":")
    \/ (t2.k = "sym" /\ t2.s = ":")
    \* a lexeme that is not a token must not be allowed to merge with its neighbours into one
    \/ (t1.k = "bad" /\ t2.k \in {"name", "num", "bad"})
    \/ (t2.k = "bad" /\ t1.k \in {"name", "num", "bad"})

SepVector(toks) == [i \in 1 .. (Len(toks) - 1) |-> NeedsSep(toks[i], toks[i + 1])]
Lexemes(toks) == [i \in 1 .. Len(toks) |-> toks[i].s]

(***************************************************************************)
(* Reference parser.  Every parsing operator takes the token string and a  *)
(* position and returns [ok, a, i]: success, AST, next position.           *)
(***************************************************************************)
NoAst == [t |-> "none"]
\* the syntax-level filter node remembers whether the primary was parenthesised
FilterP(e, preds, steps, paren) == [t |-> "filter", e |-> e, preds |-> preds, steps |-> steps, paren |-> paren]
Fail == [ok |-> FALSE, a |-> NoAst, i |-> 0]
Ok(a, i) == [ok |-> TRUE, a |-> a, i |-> i]

At(toks, i) == IF i <= Len(toks) THEN toks[i] ELSE Tok("eof", "")
SymAt(toks, i, s) == IsSym(At(toks, i), s)
NameAt(toks, i, s) == IsNameTok(At(toks, i), s)

NodeTypeNames == {"node", "text", "comment", "processing-instruction"}
AxisNames == Axes \cup {"namespace"}

\* split a QName lexeme "p:l" / "l" / "p:*"
ColonIdx(s) == FirstIdx(s, ":", 1)
QPrefix(s) == IF ColonIdx(s) = 0 THEN "" ELSE SubSeq(s, 1, ColonIdx(s) - 1)
QLocal(s)  == IF ColonIdx(s) = 0 THEN s ELSE SubSeq(s, ColonIdx(s) + 1, Len(s))

\* literal lexeme 'abc' -> abc
LitValue(s) == SubSeq(s, 2, Len(s) - 1)

\* number lexeme -> Num  (Digits ('.' Digits?)? | '.' Digits)
NumValue(s) == StrToNum(s)

\* function signature table: <<min args, max args>>; 99 = unbounded
FnSig == [f \in {"last", "position", "count", "local-name", "namespace-uri", "name", "string", "concat", "starts-with",
                 "contains", "ends-with", "substring-before", "substring-after", "substring", "string-length",
                 "normalize-space", "translate", "boolean", "not", "true", "false", "number", "sum", "floor", "ceiling",
                 "round", "lower-case", "string-join", "matches", "replace", "reverse"} |->
    CASE f \in {"last", "position", "true", "false"} -> <<0, 0>>
      [] f \in {"count", "boolean", "not", "sum", "floor", "ceiling", "round", "lower-case", "reverse"} -> <<1, 1>>
      [] f \in {"local-name", "namespace-uri", "name", "string", "string-length", "normalize-space", "number"} -> <<0, 1>>
      [] f \in {"starts-with", "contains", "ends-with", "substring-before", "substring-after", "string-join", "matches"} -> <<2, 2>>
      [] f = "substring" -> <<2, 3>>
      [] f \in {"translate", "replace"} -> <<3, 3>>
      [] f = "concat" -> <<2, 99>>]
KnownFn(f) == f \in DOMAIN FnSig
ArityOK(f, n) == KnownFn(f) /\ FnSig[f][1] <= n /\ n <= FnSig[f][2]

StartsPrimary(toks, i) ==
    LET t == At(toks, i) IN
    \/ t.k \in {"lit", "num"}
    \/ IsSym(t, "$") \/ IsSym(t, "(")
    \/ t.k = "name" /\ SymAt(toks, i + 1, "(") /\ t.s \notin NodeTypeNames

StartsStep(toks, i) ==
    LET t == At(toks, i) IN
    \/ t.k = "name"
    \/ t.k = "sym" /\ t.s \in {"*", "@", ".", ".."}

RECURSIVE PExpr(_, _), POrTail(_, _, _), PAnd(_, _), PAndTail(_, _, _), PEq(_, _), PEqTail(_, _, _),
          PRel(_, _), PRelTail(_, _, _), PAdd(_, _), PAddTail(_, _, _), PMul(_, _), PMulTail(_, _, _),
          PUnary(_, _), PUnion(_, _), PUnionTail(_, _, _), PPath(_, _), PFilter(_, _), PPreds(_, _, _),
          PRelPath(_, _, _), PStep(_, _), PSeqAlts(_, _, _), PNodeTest(_, _, _), PPrimary(_, _), PArgs(_, _, _)

PExpr(toks, i) ==
    LET l == PAnd(toks, i) IN IF ~l.ok THEN Fail ELSE POrTail(toks, l.a, l.i)
POrTail(toks, left, i) ==
    IF NameAt(toks, i, "or")
    THEN LET r == PAnd(toks, i + 1) IN IF ~r.ok THEN Fail ELSE POrTail(toks, Bin("or", left, r.a), r.i)
    ELSE Ok(left, i)
PAnd(toks, i) ==
    LET l == PEq(toks, i) IN IF ~l.ok THEN Fail ELSE PAndTail(toks, l.a, l.i)
PAndTail(toks, left, i) ==
    IF NameAt(toks, i, "and")
    THEN LET r == PEq(toks, i + 1) IN IF ~r.ok THEN Fail ELSE PAndTail(toks, Bin("and", left, r.a), r.i)
    ELSE Ok(left, i)
PEq(toks, i) ==
    LET l == PRel(toks, i) IN IF ~l.ok THEN Fail ELSE PEqTail(toks, l.a, l.i)
PEqTail(toks, left, i) ==
    IF At(toks, i).k = "sym" /\ At(toks, i).s \in {"=", "!="}
    THEN LET r == PRel(toks, i + 1) IN IF ~r.ok THEN Fail ELSE PEqTail(toks, Bin(At(toks, i).s, left, r.a), r.i)
    ELSE Ok(left, i)
PRel(toks, i) ==
    LET l == PAdd(toks, i) IN IF ~l.ok THEN Fail ELSE PRelTail(toks, l.a, l.i)
PRelTail(toks, left, i) ==
    IF At(toks, i).k = "sym" /\ At(toks, i).s \in {"<", "<=", ">", ">="}
    THEN LET r == PAdd(toks, i + 1) IN IF ~r.ok THEN Fail ELSE PRelTail(toks, Bin(At(toks, i).s, left, r.a), r.i)
    ELSE Ok(left, i)
PAdd(toks, i) ==
    LET l == PMul(toks, i) IN IF ~l.ok THEN Fail ELSE PAddTail(toks, l.a, l.i)
PAddTail(toks, left, i) ==
    IF At(toks, i).k = "sym" /\ At(toks, i).s \in {"+", "-"}
    THEN LET r == PMul(toks, i + 1) IN IF ~r.ok THEN Fail ELSE PAddTail(toks, Bin(At(toks, i).s, left, r.a), r.i)
    ELSE Ok(left, i)
PMul(toks, i) ==
    LET l == PUnary(toks, i) IN IF ~l.ok THEN Fail ELSE PMulTail(toks, l.a, l.i)
PMulTail(toks, left, i) ==
    \* in operator position '*' is the multiply operator and div/mod are operator names
    IF SymAt(toks, i, "*") \/ NameAt(toks, i, "div") \/ NameAt(toks, i, "mod")
    THEN LET r == PUnary(toks, i + 1) IN IF ~r.ok THEN Fail ELSE PMulTail(toks, Bin(At(toks, i).s, left, r.a), r.i)
    ELSE Ok(left, i)
PUnary(toks, i) ==
    IF SymAt(toks, i, "-")
    THEN LET r == PUnary(toks, i + 1) IN IF ~r.ok THEN Fail ELSE Ok(Neg(r.a), r.i)
    ELSE PUnion(toks, i)
PUnion(toks, i) ==
    LET l == PPath(toks, i) IN IF ~l.ok THEN Fail ELSE PUnionTail(toks, l.a, l.i)
PUnionTail(toks, left, i) ==
    IF SymAt(toks, i, "|")
    THEN LET r == PPath(toks, i + 1) IN IF ~r.ok THEN Fail ELSE PUnionTail(toks, Union(left, r.a), r.i)
    ELSE Ok(left, i)

\* PathExpr ::= LocationPath | FilterExpr | FilterExpr ('/' | '//') RelativeLocationPath
PPath(toks, i) ==
    IF StartsPrimary(toks, i)
    THEN LET f == PFilter(toks, i) IN
         IF ~f.ok THEN Fail
         ELSE IF SymAt(toks, f.i, "/")
              THEN LET r == PRelPath(toks, f.i + 1, <<>>) IN
                   IF ~r.ok THEN Fail ELSE Ok(FilterP(f.a.e, f.a.preds, r.a, f.a.paren), r.i)
              ELSE IF SymAt(toks, f.i, "//")
              THEN LET r == PRelPath(toks, f.i + 1, <<Step("descendant-or-self", NTNode, <<>>)>>) IN
                   IF ~r.ok THEN Fail ELSE Ok(FilterP(f.a.e, f.a.preds, r.a, f.a.paren), r.i)
              ELSE \* a bare primary stays what it is ((1) is 1: the engine keeps no group around a constant)
                   IF f.a.preds = <<>> /\ (~f.a.paren \/ f.a.e.t \in {"lit", "num"})
                   THEN Ok(f.a.e, f.i) ELSE Ok(FilterP(f.a.e, f.a.preds, <<>>, f.a.paren), f.i)
    ELSE IF SymAt(toks, i, "/")
         THEN IF StartsStep(toks, i + 1)
              THEN LET r == PRelPath(toks, i + 1, <<>>) IN IF ~r.ok THEN Fail ELSE Ok(Path(TRUE, r.a), r.i)
              ELSE Ok(Path(TRUE, <<>>), i + 1)
    ELSE IF SymAt(toks, i, "//")
         THEN LET r == PRelPath(toks, i + 1, <<Step("descendant-or-self", NTNode, <<>>)>>) IN
              IF ~r.ok THEN Fail ELSE Ok(Path(TRUE, r.a), r.i)
    ELSE LET r == PRelPath(toks, i, <<>>) IN IF ~r.ok THEN Fail ELSE Ok(Path(FALSE, r.a), r.i)

\* FilterExpr ::= PrimaryExpr Predicate*   -> [t "filter", e, preds, paren]
PFilter(toks, i) ==
    LET p == PPrimary(toks, i) IN
    IF ~p.ok THEN Fail
    ELSE LET ps == PPreds(toks, p.i, <<>>) IN
         IF ~ps.ok THEN Fail
         ELSE Ok([t |-> "filter", e |-> p.a.e, preds |-> ps.a, paren |-> p.a.paren], ps.i)

\* Predicate* : returns the sequence of predicate expressions
PPreds(toks, i, acc) ==
    IF SymAt(toks, i, "[")
    THEN LET e == PExpr(toks, i + 1) IN
         IF ~e.ok \/ ~SymAt(toks, e.i, "]") THEN Fail ELSE PPreds(toks, e.i + 1, Append(acc, e.a))
    ELSE Ok(acc, i)

\* RelativeLocationPath ::= Step (('/' | '//') Step)* ; acc = steps so far
PRelPath(toks, i, acc) ==
    LET s == PStep(toks, i) IN
    IF ~s.ok THEN Fail
    ELSE LET steps == acc \o s.a IN
         IF SymAt(toks, s.i, "/") THEN PRelPath(toks, s.i + 1, steps)
         ELSE IF SymAt(toks, s.i, "//") THEN PRelPath(toks, s.i + 1, Append(steps, Step("descendant-or-self", NTNode, <<>>)))
         ELSE Ok(steps, s.i)

\* Step: returns a SEQUENCE of one step (or a one-element sequence holding a
\* "seq" pseudo-step for the engine's sequence extension)
PStep(toks, i) ==
    IF SymAt(toks, i, ".") THEN Ok(<<Step("self", NTNode, <<>>)>>, i + 1)
    ELSE IF SymAt(toks, i, "..") THEN Ok(<<Step("parent", NTNode, <<>>)>>, i + 1)
    ELSE IF SymAt(toks, i, "@")
         THEN LET nt == PNodeTest(toks, i + 1, "attribute") IN
              IF ~nt.ok THEN Fail
              ELSE LET ps == PPreds(toks, nt.i, <<>>) IN IF ~ps.ok THEN Fail ELSE Ok(<<Step("attribute", nt.a, ps.a)>>, ps.i)
    ELSE IF At(toks, i).k = "name" /\ SymAt(toks, i + 1, "::")
         THEN IF At(toks, i).s \notin AxisNames THEN Fail
              ELSE LET nt == PNodeTest(toks, i + 2, At(toks, i).s) IN
                   IF ~nt.ok THEN Fail
                   ELSE LET ps == PPreds(toks, nt.i, <<>>) IN IF ~ps.ok THEN Fail ELSE Ok(<<Step(At(toks, i).s, nt.a, ps.a)>>, ps.i)
    ELSE IF SymAt(toks, i, "(")
         THEN LET alts == PSeqAlts(toks, i + 1, <<>>) IN
              IF ~alts.ok \/ ~SymAt(toks, alts.i, ")") THEN Fail
              ELSE Ok(<<[ax |-> "seq", nt |-> NTNode, preds |-> <<>>, alts |-> alts.a]>>, alts.i + 1)
    ELSE LET nt == PNodeTest(toks, i, "child") IN
         IF ~nt.ok THEN Fail
         ELSE LET ps == PPreds(toks, nt.i, <<>>) IN IF ~ps.ok THEN Fail ELSE Ok(<<Step("child", nt.a, ps.a)>>, ps.i)

PSeqAlts(toks, i, acc) ==
    LET s == PStep(toks, i) IN
    IF ~s.ok THEN Fail
    ELSE IF SymAt(toks, s.i, ",") THEN PSeqAlts(toks, s.i + 1, acc \o s.a) ELSE Ok(acc \o s.a, s.i)

PNodeTest(toks, i, ax) ==
    LET t == At(toks, i) IN
    IF IsSym(t, "*") THEN Ok(NTAny, i + 1)
    ELSE IF t.k # "name" THEN Fail
    ELSE IF SymAt(toks, i + 1, "(") /\ t.s \in NodeTypeNames
         THEN IF t.s = "processing-instruction"
              THEN IF At(toks, i + 2).k = "lit" /\ SymAt(toks, i + 3, ")") THEN Ok(NT("pi", "", LitValue(At(toks, i + 2).s)), i + 4)
                   ELSE IF SymAt(toks, i + 2, ")") THEN Ok(NT("pi", "", ""), i + 3) ELSE Fail
              ELSE IF SymAt(toks, i + 2, ")") THEN Ok(NT(t.s, "", ""), i + 3) ELSE Fail
    ELSE IF SymAt(toks, i + 1, "(") THEN Fail        \* a function call is not a node test
    ELSE IF QLocal(t.s) = "*" THEN Ok(NT("pany", QPrefix(t.s), ""), i + 1)
    ELSE Ok(NTQName(QPrefix(t.s), QLocal(t.s)), i + 1)

\* PrimaryExpr -> [e |-> ast, paren |-> BOOLEAN]
PPrimary(toks, i) ==
    LET t == At(toks, i) IN
    IF t.k = "lit" THEN Ok([e |-> Lit(LitValue(t.s)), paren |-> FALSE], i + 1)
    ELSE IF t.k = "num" THEN Ok([e |-> [t |-> "num", v |-> NumValue(t.s), lex |-> t.s], paren |-> FALSE], i + 1)
    ELSE IF IsSym(t, "$")
         THEN IF At(toks, i + 1).k = "name" THEN Ok([e |-> [t |-> "var", n |-> At(toks, i + 1).s], paren |-> FALSE], i + 2) ELSE Fail
    ELSE IF IsSym(t, "(")
         THEN LET e == PExpr(toks, i + 1) IN
              IF ~e.ok \/ ~SymAt(toks, e.i, ")") THEN Fail ELSE Ok([e |-> e.a, paren |-> TRUE], e.i + 1)
    ELSE IF t.k = "name" /\ SymAt(toks, i + 1, "(")
         THEN IF SymAt(toks, i + 2, ")")
              THEN IF ArityOK(t.s, 0) THEN Ok([e |-> Call(t.s, <<>>), paren |-> FALSE], i + 3) ELSE Fail
              ELSE LET a == PArgs(toks, i + 2, <<>>) IN
                   IF ~a.ok \/ ~SymAt(toks, a.i, ")") \/ ~ArityOK(t.s, Len(a.a)) THEN Fail
                   ELSE Ok([e |-> Call(t.s, a.a), paren |-> FALSE], a.i + 1)
    ELSE Fail

PArgs(toks, i, acc) ==
    LET e == PExpr(toks, i) IN
    IF ~e.ok THEN Fail
    ELSE IF SymAt(toks, e.i, ",") THEN PArgs(toks, e.i + 1, Append(acc, e.a)) ELSE Ok(Append(acc, e.a), e.i)

\* a token string is well-formed iff it parses as an Expr and nothing is left
NoBadTok(toks) == \A i \in 1 .. Len(toks) : toks[i].k # "bad"
RefParse(toks) ==
    IF ~NoBadTok(toks) \/ toks = <<>> THEN Fail
    ELSE LET r == PExpr(toks, 1) IN IF r.ok /\ r.i = Len(toks) + 1 THEN r ELSE Fail
WellFormed(toks) == RefParse(toks).ok

(***************************************************************************)
(* Reference lexer: XPath 1.0 section 3.7 on ASCII strings.  Longest match; *)
(* whitespace separates tokens and is otherwise ignored; what is not a     *)
(* token becomes a "bad" token (unclosed literal, stray character, "p:").  *)
(***************************************************************************)
Letters == {"a","b","c","d","e","f","g","h","i","j","k","l","m","n","o","p","q","r","s","t","u","v","w","x","y","z",
            "A","B","C","D","E","F","G","H","I","J","K","L","M","N","O","P","Q","R","S","T","U","V","W","X","Y","Z","_"}
IsNameStart(c) == c \in Letters
IsNameChar(c) == c \in Letters \/ IsDigitCh(c) \/ c \in {"-", "."}

RECURSIVE NameEnd(_, _)
NameEnd(s, i) == IF i <= Len(s) /\ IsNameChar(Ch(s, i)) THEN NameEnd(s, i + 1) ELSE i
RECURSIVE QuoteEnd(_, _, _)
\* index of the closing quote q at or after i, 0 if none
QuoteEnd(s, i, q) == IF i > Len(s) THEN 0 ELSE IF Ch(s, i) = q THEN i ELSE QuoteEnd(s, i + 1, q)

RECURSIVE LexFrom(_, _)
LexFrom(s, i) ==
    IF i > Len(s) THEN <<>>
    ELSE LET c == Ch(s, i)
             c2 == IF i < Len(s) THEN Ch(s, i + 1) ELSE ""
         IN
         IF IsWS(c) THEN LexFrom(s, i + 1)
         ELSE IF c \in {"(", ")", "[", "]", ",", "@", "|", "+", "-", "=", "*", "$"} THEN <<TSym(c)>> \o LexFrom(s, i + 1)
         ELSE IF c = "/" THEN (IF c2 = "/" THEN <<TSym("//")>> \o LexFrom(s, i + 2) ELSE <<TSym("/")>> \o LexFrom(s, i + 1))
         ELSE IF c \in {"<", ">"} THEN (IF c2 = "=" THEN <<TSym(c \o "=")>> \o LexFrom(s, i + 2) ELSE <<TSym(c)>> \o LexFrom(s, i + 1))
         ELSE IF c = "!" THEN (IF c2 = "=" THEN <<TSym("!=")>> \o LexFrom(s, i + 2) ELSE <<TBad("!")>> \o LexFrom(s, i + 1))
         ELSE IF c = ":" THEN (IF c2 = ":" THEN <<TSym("::")>> \o LexFrom(s, i + 2) ELSE <<TBad(":")>> \o LexFrom(s, i + 1))
         ELSE IF c = "." /\ ~IsDigitCh(c2)
              THEN (IF c2 = "." THEN <<TSym("..")>> \o LexFrom(s, i + 2) ELSE <<TSym(".")>> \o LexFrom(s, i + 1))
         ELSE IF IsDigitCh(c) \/ c = "."
              THEN LET e1 == DigitsEnd(s, i)
                       e2 == IF e1 <= Len(s) /\ Ch(s, e1) = "." THEN DigitsEnd(s, e1 + 1) ELSE e1
                   IN <<TNum(SubSeq(s, i, e2 - 1))>> \o LexFrom(s, e2)
         ELSE IF c \in {"'", "\""}
              THEN LET e == QuoteEnd(s, i + 1, c)
                   IN IF e = 0 THEN <<TBad(SubSeq(s, i, Len(s)))>> ELSE <<TLit(SubSeq(s, i, e))>> \o LexFrom(s, e + 1)
         ELSE IF IsNameStart(c)
              THEN LET e1 == NameEnd(s, i)
                       colon == e1 < Len(s) /\ Ch(s, e1) = ":" /\ Ch(s, e1 + 1) # ":"
                   IN IF ~colon THEN <<TName(SubSeq(s, i, e1 - 1))>> \o LexFrom(s, e1)
                      ELSE IF Ch(s, e1 + 1) = "*" THEN <<TName(SubSeq(s, i, e1 + 1))>> \o LexFrom(s, e1 + 2)
                      ELSE IF IsNameStart(Ch(s, e1 + 1))
                           THEN LET e2 == NameEnd(s, e1 + 1) IN <<TName(SubSeq(s, i, e2 - 1))>> \o LexFrom(s, e2)
                      ELSE <<TBad(SubSeq(s, i, e1))>> \o LexFrom(s, e1 + 1)
         ELSE <<TBad(c)>> \o LexFrom(s, i + 1)
Lex(s) == LexFrom(s, 1)
\* a name directly followed by ':' at the very end ("p:") is a bad qualified name
WellFormedText(s) == WellFormed(Lex(s))

(***************************************************************************)
(* The engine's parse-tree shape: a string in the format of VerifParse.    *)
(***************************************************************************)
\* a Number lexeme in the shortest plain decimal form (what Go prints for the parsed value):
\* no leading zeros, no trailing fraction zeros, "0." in front of a bare fraction
RECURSIVE StripLead0(_), StripTrail0(_)
StripLead0(s) == IF Len(s) > 1 /\ Ch(s, 1) = "0" THEN StripLead0(SubSeq(s, 2, Len(s))) ELSE s
StripTrail0(s) == IF Len(s) > 0 /\ Ch(s, Len(s)) = "0" THEN StripTrail0(SubSeq(s, 1, Len(s) - 1)) ELSE s
NormDec(s) ==
    LET dot == FirstIdx(s, ".", 1)
        ip  == IF dot = 0 THEN s ELSE SubSeq(s, 1, dot - 1)
        fp  == IF dot = 0 THEN "" ELSE StripTrail0(SubSeq(s, dot + 1, Len(s)))
        ip2 == IF ip = "" THEN "0" ELSE StripLead0(ip)
    IN IF fp = "" THEN ip2 ELSE ip2 \o "." \o fp

RECURSIVE EForm(_), EFSteps(_, _), EFPreds(_, _), EFArgs(_), EFAlts(_, _), NegParity(_), NegBase(_)

TestForm(nt) ==
    CASE nt.k = "name"    -> "name:" \o nt.px \o ":" \o nt.n
      [] nt.k = "pany"    -> "name:" \o nt.px \o ":"
      [] nt.k = "any"     -> "*"
      [] nt.k = "node"    -> "node()"
      [] nt.k = "text"    -> "text()"
      [] nt.k = "comment" -> "comment()"
      [] nt.k = "pi"      -> "processing-instruction()" \o (IF nt.n = "" THEN "" ELSE "[" \o nt.n \o "]")

EFPreds(base, preds) ==
    IF preds = <<>> THEN base ELSE EFPreds("filter(" \o base \o "," \o EForm(Head(preds)) \o ")", Tail(preds))

EFAlts(alts, input) ==      \* (a1 | a2) | a3 ..., every alternative with the same input
    LET one(s) == EFSteps(<<s>>, input)
        RECURSIVE go(_, _)
        go(acc, rest) == IF rest = <<>> THEN acc ELSE go("(" \o acc \o " | " \o one(Head(rest)) \o ")", Tail(rest))
    IN go(one(Head(alts)), Tail(alts))

EFSteps(steps, input) ==
    IF steps = <<>> THEN input
    ELSE LET s == Head(steps) IN
         IF s.ax = "seq" THEN EFSteps(Tail(steps), EFAlts(s.alts, input))
         ELSE EFSteps(Tail(steps), EFPreds("axis(" \o s.ax \o "," \o TestForm(s.nt) \o "," \o input \o ")", s.preds))

EFArgs(args) == IF args = <<>> THEN "" ELSE "," \o EForm(Head(args)) \o EFArgs(Tail(args))

NegParity(e) == IF e.t = "neg" THEN 1 - NegParity(e.e) ELSE 0
NegBase(e) == IF e.t = "neg" THEN NegBase(e.e) ELSE e

EForm(e) ==
    CASE e.t = "path"   -> EFSteps(e.steps, IF e.abs THEN "root" ELSE "-")
      [] e.t = "filter" ->
            LET inner == IF e.e.t \in {"lit", "num"} \/ ~e.paren THEN EForm(e.e) ELSE "group(" \o EForm(e.e) \o ")"
            IN EFSteps(e.steps, EFPreds(inner, e.preds))
      [] e.t = "union"  -> "(" \o EForm(e.l) \o " | " \o EForm(e.r) \o ")"
      [] e.t = "bin"    -> "(" \o EForm(e.l) \o " " \o e.op \o " " \o EForm(e.r) \o ")"
      [] e.t = "neg"    -> \* the engine folds a run of minus signs into one multiplication: by -1 for an odd run, by 1 for
                           \* an even one (since F-C08-6: the operand is converted to a number either way)
                           IF NegParity(e) = 1 THEN "(" \o EForm(NegBase(e)) \o " * num(-1))" ELSE "(" \o EForm(NegBase(e)) \o " * num(1))"
      [] e.t = "lit"    -> "str(" \o e.s \o ")"
      [] e.t = "num"    -> "num(" \o (IF "lex" \in DOMAIN e THEN NormDec(e.lex) ELSE NumToStr(e.v)) \o ")"
      [] e.t = "var"    -> "var(" \o e.n \o ")"
      [] e.t = "call"   -> "fn(" \o e.f \o EFArgs(e.args) \o ")"

=============================================================================
