----------------------------- MODULE XApiBatch -----------------------------
(***************************************************************************)
(* Validation of recorded API histories (Flow B / second half of Flow A    *)
(* for histories).  One line of the trace file is one session:             *)
(*   ds     documents (DocCode), cs context slots <<doc index, node>>      *)
(*   e, m   expression AST and its mode                                    *)
(*   fresh  per slot: what a freshly compiled expression returned          *)
(*   h      the calls made on ONE shared compiled expression, with replies *)
(* A session is accepted iff every fresh observation is allowed by the     *)
(* denotation (per mode) and every event of h is a step ApiStep allows.    *)
(***************************************************************************)
EXTENDS XApi, Json, CSV, IOUtils

CONSTANT Chunk

Trace == ndJsonDeserialize(IOEnv.VERIF_TRACE)
OutFile == IOEnv.VERIF_OUT

VARIABLES ph, l
vars == <<ph, l>>

Init == ph = 0 /\ l = 0
Next ==
    \/ /\ ph = 0 /\ ph' = 1
       /\ l' \in {c \in 1 .. Len(Trace) : (c - 1) % Chunk = 0}
    \/ /\ ph = 1 /\ ph' = 2
       /\ l' \in l .. (IF l + Chunk - 1 > Len(Trace) THEN Len(Trace) ELSE l + Chunk - 1)
Spec == Init /\ [][Next]_vars

DocOf(code) == [i \in 1 .. Len(code) |->
                   Node(code[i][1], code[i][2], code[i][5], code[i][6], code[i][3], code[i][4])]

RECURSIVE FirstBadFresh(_, _)
FirstBadFresh(s, c) ==
    IF c > Len(s.cs) THEN <<0, "">>
    ELSE LET v == ObsVerdict(s.e, s.m, Env(DocOf(s.ds[s.cs[c][1]])), s.cs[c][2], s.fresh[c])
         IN IF v # "" /\ ~(s.m = "none" /\ "panic" \in DOMAIN s.fresh[c]) THEN <<c, v>> ELSE FirstBadFresh(s, c + 1)

Verdict(s) ==
    LET fb == FirstBadFresh(s, 1)
    IN IF fb[1] # 0 THEN [at |-> "fresh", i |-> fb[1], why |-> fb[2]]
       ELSE LET r == RunFrom(InitSession, s.h, 1, s.fresh)
            IN IF r[1] # 0 THEN [at |-> "history", i |-> r[1], why |-> r[2]]
               ELSE [at |-> "", i |-> 0, why |-> ""]

Validate ==
    ph = 2 =>
      LET v == Verdict(Trace[l])
      IN IF v.at = "" THEN TRUE
         ELSE CSVWrite("%1$s", <<ToJson([l |-> l, fail |-> v.why, at |-> v.at, i |-> v.i])>>, OutFile)
=============================================================================
