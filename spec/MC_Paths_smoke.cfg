SPECIFICATION Spec
CONSTANTS
  MaxNodes = 4
  MaxSteps = 1
  CatSteps = 1
  ElemNames = {"a", "b"}
  AttrNames = {"a"}
  TextVals = {"t"}
  WithComment = TRUE
  StepAxes = {"ancestor", "ancestor-or-self", "attribute", "child", "descendant", "descendant-or-self", "following", "following-sibling", "parent", "preceding", "preceding-sibling", "self"}
  TestKinds = {"any", "node", "text", "comment"}
  TestNames = {"a", "b"}
INVARIANTS Emit Sanity
CHECK_DEADLOCK FALSE
