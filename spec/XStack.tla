------------------------------- MODULE XStack -------------------------------
(***************************************************************************)
(* C06, unbounded nesting: a pushdown abstraction of the recursive-descent *)
(* parser and of the query builder.  Control locations are the functions   *)
(* of parse.go / build.go, edges are the calls between them, EXTRACTED     *)
(* FROM THE WORKING TREE by the harness (xvh skel) and read here; a        *)
(* function is "guarded" when it increments a depth counter and compares   *)
(* it with a limit.  A run of the machine follows call edges and counts    *)
(* the calls made since the last guarded function.                         *)
(*                                                                         *)
(* EveryCycleGuarded: the count never exceeds the number of functions.     *)
(* By the pumping argument a longer unguarded run repeats a function,      *)
(* i.e. there is a recursive cycle that passes no depth guard and the      *)
(* stack depth is not bounded by c * limit.  UnguardedCycleFuncs is the    *)
(* set of functions on such cycles; it is written out so that the harness  *)
(* pumps exactly these cycles on the real code.                            *)
(***************************************************************************)
EXTENDS Integers, Sequences, FiniteSets, TLC, Json, CSV, IOUtils

Skel == ndJsonDeserialize(IOEnv.VERIF_TRACE)[1]
OutFile == IOEnv.VERIF_OUT

Funcs   == {Skel.funcs[i] : i \in 1 .. Len(Skel.funcs)}
Edges   == {<<Skel.edges[i][1], Skel.edges[i][2]>> : i \in 1 .. Len(Skel.edges)}
Guarded == {Skel.guarded[i] : i \in 1 .. Len(Skel.guarded)}
Roots   == {Skel.roots[i] : i \in 1 .. Len(Skel.roots)}

Succ(f) == {g \in Funcs : <<f, g>> \in Edges}

\* functions reachable from f by one or more calls through UNGUARDED functions only
RECURSIVE ReachU(_, _)
ReachU(frontier, seen) ==
    LET next == UNION {Succ(f) : f \in frontier} \ Guarded
        new == next \ seen
    IN IF new = {} THEN seen ELSE ReachU(new, seen \cup new)
RECURSIVE ReachAll(_, _)
ReachAll(frontier, seen) ==
    LET new == UNION {Succ(f) : f \in frontier} \ seen
    IN IF new = {} THEN seen ELSE ReachAll(new, seen \cup new)
Reachable == ReachAll(Roots, Roots)
UnguardedCycleFuncs == {f \in (Funcs \cap Reachable) \ Guarded : f \in ReachU({f}, {})}

VARIABLES loc, run
vars == <<loc, run>>
Init == loc \in Roots /\ run = 0
Next == /\ run <= Cardinality(Funcs)
        /\ \E g \in Succ(loc) : loc' = g /\ run' = IF g \in Guarded THEN 0 ELSE run + 1
Spec == Init /\ [][Next]_vars

EveryCycleGuarded == run <= Cardinality(Funcs)

Report ==
    (run = 0 /\ loc \in Roots) =>
        CSVWrite("%1$s", <<ToJson([k |-> "cycles", funcs |-> UnguardedCycleFuncs, nfuncs |-> Cardinality(Funcs),
                                   nedges |-> Cardinality(Edges), guarded |-> Guarded])>>, OutFile)
=============================================================================
