----------------------------- MODULE MC_Corpus -----------------------------
(***************************************************************************)
(* The reference lexer and parser applied to the expressions of the        *)
(* repository's own test suite (XCorpus): for every expression the         *)
(* reference parser accepts, the engine's parse tree must be the reference *)
(* tree (C10 on real-world expressions, and a cross-check of the           *)
(* specification itself: an expression the engine's tests rely on but the  *)
(* reference parser rejects is reported in the evidence, not judged).      *)
(***************************************************************************)
EXTENDS XSyntax, XCorpus, Json, CSV, IOUtils

VARIABLES i
OutFile == IOEnv.VERIF_OUT
Init == i = 0
Next == i = 0 /\ i' \in 1 .. Len(Corpus)
Spec == Init /\ [][Next]_i

\* constructs the engine knows but the XPath 1.0 reference grammar deliberately does not
Emit ==
    i > 0 =>
      LET toks == Lex(Corpus[i])
          r == RefParse(toks)
      IN IF r.ok
         THEN CSVWrite("%1$s", <<ToJson([k |-> "parse", toks |-> Lexemes(toks), sep |-> SepVector(toks), want |-> EForm(r.a), src |-> Corpus[i]])>>, OutFile)
         ELSE CSVWrite("%1$s", <<ToJson([k |-> "skip", src |-> Corpus[i]])>>, OutFile)
=============================================================================
